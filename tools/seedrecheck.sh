#!/bin/bash
# usage: seedrecheck.sh <seed-id>...
# Fast re-validation of seeds that a full property check already caught (seeded/RESULTS.txt): the seed is
# applied to a scratch worktree of /repo's HEAD and only the functions whose obligations failed then are
# verified again (govc func); prints "<seed> still-caught <first failing obligation>" or "<seed> NOT-CAUGHT".
export GOFLAGS=-mod=mod GOPROXY=off GOSUMDB=off GOTOOLCHAIN=local
cd /verif
for id in "$@"; do
  d=/verif/seeded/$id
  fns=$(awk -v id="$id" '$0 ~ "^== /verif/seeded/"id" " {on=1; next} /^== /{on=0} on && /obligation=/ {sub(/.*obligation=/,""); print $1}' seeded/RESULTS.txt | sed 's#/.*##' | sort -u)
  [ -z "$fns" ] && { echo "$id no-recorded-function"; continue; }
  wt=$(mktemp -d /tmp/seedwt.XXXXXX); rmdir $wt
  git -C /repo worktree add -q --detach $wt HEAD || { echo "$id worktree-failed"; continue; }
  if git -C $wt apply "$d/patch.diff" 2>/dev/null; then
    out=$(VERIF_OUT=$wt.out bin/govc func --timeout ${RT:-12} --repo $wt $fns 2>&1)
    bad=$(echo "$out" | grep -m1 "^   failed\|^   undecided\|ERROR" | awk '{print $1, $2}')
    if [ -n "$bad" ]; then echo "$id still-caught $bad"; else echo "$id NOT-CAUGHT ($fns)"; fi
  else
    echo "$id patch-does-not-apply"
  fi
  git -C /repo worktree remove --force $wt; rm -rf $wt.out
done
