#!/usr/bin/env python3
# usage: mkprompt.py Cxx wave -> prints the sub-agent prompt for a property (text of the property only, nothing from /verif's machinery)
import json,sys,glob,os
pid=sys.argv[1]; wave=sys.argv[2]
props={json.loads(l)['id']:json.loads(l) for l in open('/verif/properties.jsonl')}
p=props[pid]
taken=[]
for d in sorted(glob.glob('/verif/seeded/%s-*/meta.json'%pid)):
    try: taken.append(json.load(open(d)).get('summary','')[:160])
    except Exception: pass
wt='/tmp/wt_%s_%s'%(pid,wave); out='/tmp/seed_%s_%s'%(pid,wave)
files=', '.join(f for f in p['anchors']['files'] if not f.startswith('(dep)'))
t=open('/verif/seeded/PROMPT-example.txt').read()
head=t.split('PROPERTY C13')[0]
tail=t.split('Code the property is anchored in:')[1].split('\n',1)[1]
tail=tail.replace('/tmp/wt_C13',wt).replace('/tmp/seed_C13',out).replace('"C13"','"%s"'%pid)
s=head+'PROPERTY %s: %s\n%s\n\nCode the property is anchored in: %s\n'%(pid,p['title'],p['statement'],files)+tail
s+='\n\nPrefer changes that need something specific to manifest (a particular interleaving, a crash or fault at a particular point, a multi-step sequence of operations, an unusual input, or two cooperating sites that each look fine alone), not ones that ordinary use would expose at once.'
if taken:
    s+='\n\nIdeas already taken by earlier authors (do NOT repeat these; find different functions, aspects or mechanisms):\n'+'\n'.join(' - '+x for x in taken)
print(s)
