#!/bin/bash
# usage: seedimport.sh Cxx <wave>: copies /tmp/seed_Cxx_<wave>/{1,2,3} to /verif/seeded/Cxx-<next> and prints the new directories
p=$1; w=$2
for k in 1 2 3; do
  src=/tmp/seed_${p}_${w}/$k
  [ -f $src/patch.diff ] || continue
  n=1; while [ -e /verif/seeded/$p-$n ]; do n=$((n+1)); done
  dst=/verif/seeded/$p-$n
  mkdir -p $dst
  cp $src/patch.diff $src/meta.json $dst/ 2>/dev/null
  cp $src/demonstration.md $dst/ 2>/dev/null
  cp $src/zz_demo*_test.go $dst/ 2>/dev/null
  echo $dst
done
