#!/bin/bash
# applies every benign change of tools/benign to a scratch worktree and runs the quick check of one property per
# touched server (family closure: that covers every function under contract of the server); no alarm is expected
cd /verif
for d in tools/benign/*.diff; do
  dd=$(mktemp -d /tmp/benign.XXXXXX); cp $d $dd/patch.diff
  files=$(grep '^+++ b/' $d | sed 's#+++ b/##')
  props=""
  case "$files" in *simple/*) props="$props C17";; esac
  case "$files" in *kvs/*) props="$props C18";; esac
  case "$files" in *nfstypes/*) props="$props C16";; esac
  case "$files" in *nfs/*|*inode/*|*dir/*|*fstxn/*|*alloctxn/*|*cache/*|*shrinker/*|*super/*|*fh/*|*util/*) props="$props C02";; esac
  for p in $props; do tools/seedtest.sh $dd $p 2>&1 | sed "s#$dd#$(basename $d)#" | cut -c1-200; done
  rm -rf $dd
done
