#!/usr/bin/env python3
"""Generates the C16 contracts of package nfstypes from the RFC 1813 XDR grammar.

Input : the XDR text of RFC 1813 (go-rpcgen's rfc1813/prot.x, pinned in the module cache by go.sum)
Output: the comment-only contract file /repo/nfstypes/zz_contracts_verif.go (build tag verif)

The contracts are derived from the *grammar*, never from the generated Go code: for every XDR
type T they define
    wend_T(v, o)  the stream position just after the RFC layout of value v that starts at position o
    wok_T(v, o)   "bytes [o, wend_T(v, o)) of the stream are the RFC layout of v"
    wlim_T(v)     every length in v is within its declared maximum and every union
                  discriminant selects a declared arm
and give (*T).Xdr the contract "reads/writes exactly that layout". The Go names follow
go-rpcgen's naming rule (first letter upper-cased), which is the only thing taken from the
generator. `xdrgen.py --check` regenerates and compares with the committed file.
"""
import re, sys, os

PROT = '/root/go/pkg/mod/github.com/zeldovich/go-rpcgen@v0.1.5/rfc1813/prot.x'
OUT = '/repo/nfstypes/zz_contracts_verif.go'


# ---------------------------------------------------------------- parser
def tokenize(src):
    src = re.sub(r'/\*.*?\*/', ' ', src, flags=re.S)
    src = re.sub(r'^%.*$', ' ', src, flags=re.M)
    return re.findall(r'[A-Za-z_][A-Za-z_0-9]*|0x[0-9a-fA-F]+|-?\d+|[{}()\[\]<>;,=*:]', src)


class P:
    def __init__(self, toks):
        self.t = toks
        self.i = 0

    def peek(self, k=0):
        return self.t[self.i + k] if self.i + k < len(self.t) else None

    def next(self):
        x = self.t[self.i]
        self.i += 1
        return x

    def expect(self, s):
        x = self.next()
        if x != s:
            raise SyntaxError('expected %r got %r at token %d (%s)' % (s, x, self.i, ' '.join(self.t[max(0, self.i - 8):self.i + 3])))
        return x


def parse_type(p):
    t = p.next()
    if t == 'unsigned':
        n = p.peek()
        if n in ('int', 'hyper'):
            p.next()
            return 'u32' if n == 'int' else 'u64'
        return 'u32'
    if t == 'int':
        return 'i32'
    if t == 'hyper':
        return 'i64'
    return t  # bool, opaque, string, void, or a named type


def parse_decl(p):
    """returns dict(kind, base, name, n) ; kind in plain, fixed, var, opt, void"""
    base = parse_type(p)
    if base == 'void':
        return dict(kind='void')
    kind = 'plain'
    if p.peek() == '*':
        p.next()
        kind = 'opt'
    name = p.next()
    n = None
    if p.peek() == '[':
        p.next()
        n = p.next()
        p.expect(']')
        kind = 'fixed'
    elif p.peek() == '<':
        p.next()
        if p.peek() != '>':
            n = p.next()
        p.expect('>')
        kind = 'var'
    return dict(kind=kind, base=base, name=name, n=n)


def parse(src):
    p = P(tokenize(src))
    consts, types, order, progs = {}, {}, [], []
    while p.peek() is not None:
        k = p.next()
        if k == 'const':
            name = p.next()
            p.expect('=')
            consts[name] = int(p.next(), 0)
            p.expect(';')
        elif k == 'typedef':
            d = parse_decl(p)
            p.expect(';')
            types[d['name']] = dict(form='typedef', decl=d)
            order.append(d['name'])
        elif k == 'enum':
            name = p.next()
            p.expect('{')
            vals = []
            while True:
                en = p.next()
                p.expect('=')
                ev = int(p.next(), 0)
                vals.append((en, ev))
                consts[en] = ev
                if p.peek() == ',':
                    p.next()
                    continue
                break
            p.expect('}')
            p.expect(';')
            types[name] = dict(form='enum', vals=vals)
            order.append(name)
        elif k == 'struct':
            name = p.next()
            p.expect('{')
            fields = []
            while p.peek() != '}':
                fields.append(parse_decl(p))
                p.expect(';')
            p.expect('}')
            p.expect(';')
            types[name] = dict(form='struct', fields=fields)
            order.append(name)
        elif k == 'union':
            name = p.next()
            p.expect('switch')
            p.expect('(')
            disc = parse_decl(p)
            p.expect(')')
            p.expect('{')
            arms, default = [], None
            while p.peek() != '}':
                labels = []
                isdef = False
                while p.peek() in ('case', 'default'):
                    if p.next() == 'case':
                        labels.append(p.next())
                    else:
                        isdef = True
                    p.expect(':')
                d = parse_decl(p)
                p.expect(';')
                if isdef:
                    default = d
                if labels:
                    arms.append((labels, d))
            p.expect('}')
            p.expect(';')
            types[name] = dict(form='union', disc=disc, arms=arms, default=default)
            order.append(name)
        elif k == 'program':
            pname = p.next()
            p.expect('{')
            vers = []
            while p.peek() == 'version':
                p.next()
                vname = p.next()
                p.expect('{')
                procs = []
                while p.peek() != '}':
                    ret = parse_type(p)
                    prname = p.next()
                    p.expect('(')
                    arg = parse_type(p)
                    p.expect(')')
                    p.expect('=')
                    num = int(p.next(), 0)
                    p.expect(';')
                    procs.append(dict(name=prname, ret=ret, arg=arg, num=num))
                p.expect('}')
                p.expect('=')
                vnum = int(p.next(), 0)
                p.expect(';')
                vers.append(dict(name=vname, num=vnum, procs=procs))
            p.expect('}')
            p.expect('=')
            pnum = int(p.next(), 0)
            p.expect(';')
            progs.append(dict(name=pname, num=pnum, vers=vers))
        else:
            raise SyntaxError('unexpected %r' % k)
    return consts, types, order, progs


# ---------------------------------------------------------------- generator
def goname(n):
    return n[0].upper() + n[1:]


class Gen:
    def __init__(self, consts, types, order, progs):
        self.consts, self.types, self.order, self.progs = consts, types, order, progs
        self.recursive = self.find_recursive()

    def const(self, n):
        if n is None:
            return None
        return self.consts[n] if n in self.consts else int(n, 0)

    def refs(self, name):
        t = self.types[name]
        out = []

        def dref(d):
            if d.get('kind') != 'void' and d['base'] in self.types:
                out.append(d['base'])
        if t['form'] == 'typedef':
            dref(t['decl'])
        elif t['form'] == 'struct':
            for f in t['fields']:
                dref(f)
        elif t['form'] == 'union':
            for _, d in t['arms']:
                dref(d)
            if t['default']:
                dref(t['default'])
        return out

    def find_recursive(self):
        """types from which a cycle is reachable through an optional member (linked lists)"""
        rec = set()
        for n in self.types:
            seen, todo = set(), list(self.refs(n))
            while todo:
                m = todo.pop()
                if m == n:
                    rec.add(n)
                    break
                if m in seen:
                    continue
                seen.add(m)
                todo.extend(self.refs(m))
        return rec

    def haslist(self, name, seen=None):
        """does a value of this type contain (transitively) an optional member"""
        seen = seen or set()
        if name in seen:
            return False
        seen.add(name)
        t = self.types[name]
        ds = []
        if t['form'] == 'typedef':
            ds = [t['decl']]
        elif t['form'] == 'struct':
            ds = t['fields']
        elif t['form'] == 'union':
            ds = [d for _, d in t['arms']] + ([t['default']] if t['default'] else [])
        for d in ds:
            if d.get('kind') == 'void':
                continue
            if d['kind'] == 'opt':
                return True
            if d['base'] in self.types and self.haslist(d['base'], seen):
                return True
        return False

    def wzero(self, name):
        """body of wzero_T(v): every optional member of v (not following pointers) is nil"""
        t = self.types[name]
        ds = []
        if t['form'] == 'typedef':
            d = dict(t['decl'])
            if d['kind'] == 'opt':
                return 'v.P == nil'
            if d['kind'] == 'plain' and d['base'] in self.types and self.haslist(d['base']):
                return 'wzero_%s(v)' % goname(d['base'])
            return 'true'
        if t['form'] == 'struct':
            ds = t['fields']
        elif t['form'] == 'union':
            ds = [d for _, d in t['arms']] + ([t['default']] if t['default'] else [])
        cs = []
        for d in ds:
            if d.get('kind') == 'void':
                continue
            e = 'v.' + goname(d['name'])
            if d['kind'] == 'opt':
                cs.append('%s == nil' % e)
            elif d['kind'] == 'plain' and d['base'] in self.types and self.haslist(d['base']):
                cs.append('wzero_%s(%s)' % (goname(d['base']), e))
        return ' && '.join(cs) or 'true'

    def listnodes(self, name, seen=None):
        """XDR types whose values a value of this type can point to (the nodes a decoder allocates)"""
        seen = seen if seen is not None else set()
        out = []
        t = self.types[name]
        ds = []
        if t['form'] == 'typedef':
            ds = [t['decl']]
        elif t['form'] == 'struct':
            ds = t['fields']
        elif t['form'] == 'union':
            ds = [d for _, d in t['arms']] + ([t['default']] if t['default'] else [])
        for d in ds:
            if d.get('kind') == 'void' or d['base'] not in self.types:
                continue
            if d['kind'] == 'opt' and d['base'] not in out:
                out.append(d['base'])
            if d['base'] not in seen:
                seen.add(d['base'])
                for m in self.listnodes(d['base'], seen):
                    if m not in out:
                        out.append(m)
        return out

    def haswords(self, name, seen=None):
        """does a value of this type contain (transitively) a variable-length array of words
        (rpcgen emits a decoding loop that allocates what the length word says: left out)"""
        seen = seen or set()
        if name in seen:
            return False
        seen.add(name)
        t = self.types[name]
        ds = []
        if t['form'] == 'typedef':
            ds = [t['decl']]
        elif t['form'] == 'struct':
            ds = t['fields']
        elif t['form'] == 'union':
            ds = [d for _, d in t['arms']] + ([t['default']] if t['default'] else [])
        for d in ds:
            if d.get('kind') == 'void':
                continue
            if d['kind'] == 'var' and d['base'] not in ('opaque', 'string'):
                return True
            if d['base'] in self.types and self.haswords(d['base'], seen):
                return True
        return False

    # expressions for one declaration applied to Go expression e at offset o
    def use(self, d, e, o):
        """returns (wok, wsz, wlim) expression strings"""
        kind, base = d['kind'], d['base']
        n = self.const(d.get('n'))
        if kind == 'plain':
            return self.plain(base, e, o)
        if kind == 'opt':
            # optional member (RFC 4506 4.19): a boolean word, then the value if it is 1
            g = goname(base)
            ok = '((%s != nil) <==> be32w(%s) != 0) && (%s != nil ==> wok_%s(*%s, %s + 4))' % (e, o, e, g, e, o)
            end = 'ite(%s != nil, wend_%s(*%s, %s + 4), %s + 4)' % (e, g, e, o, o)
            return ('(' + ok + ')', end, '(%s != nil ==> wlim_%s(*%s))' % (e, g, e))
        if kind == 'fixed':
            if base != 'opaque':
                raise NotImplementedError('fixed array of ' + base)
            return ('(forall i uint64 :: i < %d ==> xwire[%s + i] == %s[i])' % (n, o, e), '%s + %d' % (o, (n + 3) // 4 * 4), 'true')
        if kind == 'var':
            mx = n if n is not None else 0xffffffff
            if base in ('opaque', 'string'):
                ok = '(be32w(%s) == uint32(len(%s)) && (forall i uint64 :: i < len(%s) ==> xwire[%s + 4 + i] == %s[i]))' % (o, e, e, o, e)
                return (ok, '%s + 4 + pad4(len(%s))' % (o, e), 'len(%s) <= %d' % (e, mx))
            if base in ('u32', 'i32'):
                ok = '(be32w(%s) == uint32(len(%s)) && (forall i uint64 :: i < len(%s) ==> be32w(%s + 4 + 4*i) == uint32(%s[i])))' % (o, e, e, o, e)
                return (ok, '%s + 4 + 4*len(%s)' % (o, e), 'len(%s) <= %d' % (e, mx))
            raise NotImplementedError('var array of ' + base)
        raise NotImplementedError(kind)

    def plain(self, base, e, o):
        if base in ('u32', 'i32'):
            return ('be32w(%s) == uint32(%s)' % (o, e), '%s + 4' % o, 'true')
        if base in ('u64', 'i64'):
            return ('be64w(%s) == uint64(%s)' % (o, e), '%s + 8' % o, 'true')
        if base == 'bool':
            return ('(%s <==> be32w(%s) != 0)' % (e, o), '%s + 4' % o, 'true')
        g = goname(base)
        return ('wok_%s(%s, %s)' % (g, e, o), 'wend_%s(%s, %s)' % (g, e, o), 'wlim_%s(%s)' % (g, e))

    def typedefs(self, name):
        """(wok, wsz, wlim) bodies over v, o for a named type; None when not expressible"""
        t = self.types[name]
        g = goname(name)
        if t['form'] == 'enum':
            return ('be32w(o) == uint32(v)', 'o + 4', 'true')
        if t['form'] == 'typedef':
            d = t['decl']
            if d['kind'] == 'opt':
                return self.use(d, 'v.P', 'o')  # rpcgen: typedef T *name  ->  type Name struct{ P *T }
            return self.use(d, 'v', 'o')
        if t['form'] == 'struct':
            oks, szs, lims = [], [], []
            off = 'o'
            for f in t['fields']:
                ok, end, lim = self.use(f, 'v.' + goname(f['name']), off)
                oks.append(ok)
                if lim != 'true':
                    lims.append(lim)
                off = end
            return (' && '.join(oks) or 'true', off, ' && '.join(lims) or 'true')
        if t['form'] == 'union':
            d = t['disc']
            de = 'v.' + goname(d['name'])
            isbool = d['base'] == 'bool'
            dok, dend, dlim = self.plain(d['base'], de, 'o')
            oks, lims = [dok], ([dlim] if dlim != 'true' else [])
            sz = dend
            covered = []
            for labels, a in t['arms']:
                conds = []
                for l in labels:
                    if isbool:
                        conds.append(de if l == 'TRUE' else '!' + de)
                    else:
                        conds.append('uint32(%s) == %d' % (de, self.consts[l]))
                cond = '(' + ' || '.join(conds) + ')'
                covered.append(cond)
                if a['kind'] == 'void':
                    continue
                if a['kind'] == 'opt':
                    return None
                ok, asz, lim = self.use(a, 'v.' + goname(a['name']), dend)
                oks.append('(%s ==> %s)' % (cond, ok))
                if lim != 'true':
                    lims.append('(%s ==> %s)' % (cond, lim))
                sz = 'ite(%s, %s, %s)' % (cond, asz, sz)
            if t['default'] is None:
                if not (isbool and len(covered) == 2):
                    lims.append('(' + ' || '.join(covered) + ')')
            elif t['default']['kind'] != 'void':
                a = t['default']
                if a['kind'] == 'opt':
                    return None
                cond = '!(' + ' || '.join(covered) + ')'
                ok, asz, lim = self.use(a, 'v.' + goname(a['name']), dend)
                oks.append('(%s ==> %s)' % (cond, ok))
                if lim != 'true':
                    lims.append('(%s ==> %s)' % (cond, lim))
                sz = 'ite(%s, %s, %s)' % (cond, asz, sz)
            return (' && '.join(oks), sz, ' && '.join(lims) or 'true')
        raise NotImplementedError(t['form'])

    def emit(self):
        L = []
        w = L.append
        w('//go:build verif')
        w('')
        w('// Contracts for package nfstypes (property C16), checked by /verif/govc (comment-only file).')
        w('// GENERATED by /verif/tools/xdrgen.py from the RFC 1813 XDR grammar (go-rpcgen rfc1813/prot.x);')
        w('// do not edit: `xdrgen.py --check` compares this file with a fresh generation on every run.')
        w('package nfstypes')
        w('')
        skipped = []
        for name in self.order:
            g = goname(name)
            if self.haswords(name):
                skipped.append(name)
                continue
            islist = name in self.recursive or self.haslist(name)
            r = self.typedefs(name)
            if r is None:
                skipped.append(name)
                continue
            ok, sz, lim = r
            w('//@ opaquefunc wend_%s(v nfstypes.%s, o uint64) : uint64 = %s' % (g, g, sz))
            w('//@ opaquefunc wok_%s(v nfstypes.%s, o uint64) : bool = %s' % (g, g, ok))
            w('//@ opaquefunc wlim_%s(v nfstypes.%s) : bool = %s' % (g, g, lim))
            if islist:
                w('//@ opaquefunc wzero_%s(v nfstypes.%s) : bool = %s' % (g, g, self.wzero(name)))
            w('//@ spec (*%s).Xdr(v, xs)' % g)
            w('//@   props C16')
            w('//@   requires v != nil')
            if islist:
                # a decoder fills in the value it is given: optional members it does not find stay as they were
                w('//@   requires [X-zero-target] !xenc ==> wzero_%s(*v)' % g)
                w('//@   allocates ' + ', '.join('nfstypes.' + goname(m) for m in self.listnodes(name)))
            w('//@   modifies *v, xpos, xbad')
            w('//@   ensures [X-sticky] old(xbad) ==> xbad && xpos == old(xpos)')
            w('//@   ensures [X-pure] xenc || old(xbad) ==> *v == old(*v)')
            w('//@   ensures [X-layout] !xbad ==> wok_%s(*v, old(xpos)) && xpos == wend_%s(*v, old(xpos))' % (g, g))
            w('//@   ensures [X-total] xenc && !old(xbad) && wlim_%s(old(*v)) ==> !xbad' % g)
            w('//@   ensures [X-reject] !xbad ==> wlim_%s(*v)' % g)
            w('//@   ensures [X-bounded] !xenc && !xbad ==> xpos <= xend')
            w('')
        self.skipped = skipped
        under = set(goname(n) for n in self.order if n not in skipped)
        for prog in self.progs:
            for ver in prog['vers']:
                iface = '%s_%s_handler' % (prog['name'], ver['name'])
                wrap = iface + '_wrapper'
                for pr in ver['procs']:
                    arg = None if pr['arg'] == 'void' else goname(pr['arg'])
                    ret = None if pr['ret'] == 'void' else goname(pr['ret'])
                    # the handler behind the interface: assumed (it is the server's procedure), its
                    # precondition is what the wrapper must establish before calling it
                    w('//@ spec (%s).%s' % (iface, pr['name']) + ('(this, a)' if arg else '(this)'))
                    w('//@   assume')
                    if arg and arg in under:
                        w('//@   requires [D-decoded] !xbad && wok_%s(a, xreq) && xpos == wend_%s(a, xreq) && wlim_%s(a)' % (arg, arg, arg))
                    elif arg:
                        w('//@   requires [D-decoded] !xbad')
                    w('//@   modifies hcalls, hprog, hproc, hstatus')
                    w('//@   ensures hcalls == old(hcalls) + 1 && hprog == %d && hproc == %d' % (prog['num'], pr['num']))
                    if ret and self.types[pr['ret']]['form'] == 'union' and self.types[pr['ret']]['disc']['base'] != 'bool':
                        w('//@   ensures hstatus == uint32(result.%s)' % goname(self.types[pr['ret']]['disc']['name']))
                    w('')
                    w('//@ spec (*%s).%s(w, args)' % (wrap, pr['name']))
                    w('//@   props C16')
                    w('//@   requires w != nil && w.h != nil && args != nil')
                    w('//@   ghostset xreq = xpos')
                    w('//@   modifies xpos, xbad, xreq, hcalls, hprog, hproc, hstatus')
                    w('//@   allocates nfstypes.%s' % (ret or 'Void') if ret else '//@   allocates xdr.Void')
                    if arg:
                        w('//@   ensures [D-reject] xbad ==> err != nil && hcalls == old(hcalls)')
                        w('//@   ensures [D-accept] !xbad ==> err == nil')
                    else:
                        w('//@   ensures [D-accept] err == nil && xpos == old(xpos)')
                    w('//@   ensures [D-once] err == nil ==> hcalls == old(hcalls) + 1 && hprog == %d && hproc == %d' % (prog['num'], pr['num']))
                    if ret:
                        w('//@   ensures [D-result] err == nil ==> istype(res, *nfstypes.%s) && ifaceptr(res, nfstypes.%s) != nil' % (ret, ret))
                        if self.types[pr['ret']]['form'] == 'union' and self.types[pr['ret']]['disc']['base'] != 'bool':
                            w('//@   ensures [D-result-status] err == nil ==> uint32(ifaceptr(res, nfstypes.%s).%s) == hstatus' % (ret, goname(self.types[pr['ret']]['disc']['name'])))
                    else:
                        w('//@   ensures [D-result] err == nil ==> istype(res, *xdr.Void)')
                    w('')
        for prog in self.progs:
            for ver in prog['vers']:
                iface = '%s_%s_handler' % (prog['name'], ver['name'])
                procs = ver['procs']
                w('//@ spec %s_%s_regs(h)' % (prog['name'], ver['name']))
                w('//@   props C16')
                w('//@   allocates nfstypes.%s_wrapper, []xdr.ProcRegistration' % iface)
                w('//@   ensures [D-table] len(result) == %d' % len(procs))
                w('//@   ensures [D-numbers] forall k uint64 :: k < %d ==> result[k].Prog == %d && result[k].Vers == %d' % (len(procs), prog['num'], ver['num']))
                for k, pr in enumerate(procs):
                    w('//@   ensures [D-proc-%d] result[%d].Proc == %d && result[%d].Handler == methodvalue("%s_wrapper.%s")' % (pr['num'], k, pr['num'], k, iface, pr['name']))
                w('')
        w('// XDR types not under contract (variable-length arrays of words): ' + ', '.join(skipped))
        return '\n'.join(L) + '\n'



# ---------------------------------------------------------------- replay harness
class Replay:
    """Emits a Go test file (package nfstypes, injected with go test -overlay) holding an
    independent reference encoder for every XDR type, written from the grammar, witness values
    for every union arm / optional member, and differential tests of the real generated code:
    per type (encode, decode, truncated input), per handler wrapper, per registration table."""

    def __init__(self, g):
        self.g = g
        self.L = []

    def w(self, s=''):
        self.L.append(s)

    def enc_use(self, d, e):
        """Go statements appending the RFC layout of member e (an lvalue expression) to *b"""
        g = self.g
        kind, base = d['kind'], d['base']
        n = g.const(d.get('n'))
        if kind == 'plain':
            if base in ('u32', 'i32'):
                return 'zzU32(b, uint32(%s))' % e
            if base in ('u64', 'i64'):
                return 'zzU64(b, uint64(%s))' % e
            if base == 'bool':
                return 'zzBool(b, bool(%s))' % e
            return 'zzEnc_%s(b, (*%s)(&%s))' % (goname(base), goname(base), e)
        if kind == 'opt':
            G = goname(base)
            return 'if %s != nil { zzU32(b, 1); zzEnc_%s(b, %s) } else { zzU32(b, 0) }' % (e, G, e)
        if kind == 'fixed':
            return 'zzFix(b, %s[:])' % e
        if kind == 'var':
            if base == 'string':
                return 'zzVar(b, []byte(string(%s)))' % e
            if base == 'opaque':
                return 'zzVar(b, []byte(%s))' % e
            return 'zzU32(b, uint32(len(%s))); for _, x := range %s { zzU32(b, uint32(x)) }' % (e, e)
        raise NotImplementedError(kind)

    def fill_use(self, d, e):
        g = self.g
        kind, base = d['kind'], d['base']
        n = g.const(d.get('n'))
        if kind == 'plain':
            if base in ('u32', 'i32'):
                return 'zzSet(&%s, r.next())' % e
            if base in ('u64', 'i64'):
                return 'zzSet(&%s, r.next())' % e
            if base == 'bool':
                return '%s = r.next()%%2 == 0' % e
            return 'zzFill_%s((*%s)(&%s), r, depth)' % (goname(base), goname(base), e)
        if kind == 'opt':
            G = goname(base)
            return 'if depth < 2 && r.next()%%3 != 0 { %s = new(%s); zzFill_%s(%s, r, depth+1) }' % (e, G, G, e)
        if kind == 'fixed':
            return 'for i := range %s { %s[i] = byte(r.next()) }' % (e, e)
        if kind == 'var':
            mx = n if n is not None else 9
            mx = min(mx, 9)
            if base == 'string':
                return 'zzSetStr(&%s, r, %d)' % (e, mx)
            if base == 'opaque':
                return 'zzSetBytes(&%s, r, %d)' % (e, mx)
            return '%s = nil; for k := uint64(0); k < r.next()%%4; k++ { %s = append(%s, uint32(r.next())) }' % (e, e, e)
        raise NotImplementedError(kind)

    def emit_types(self):
        g, w = self.g, self.w
        for name in g.order:
            t = g.types[name]
            G = goname(name)
            w('func zzEnc_%s(b *[]byte, v *%s) {' % (G, G))
            if t['form'] == 'enum':
                w('\tzzU32(b, uint32(*v))')
            elif t['form'] == 'typedef':
                d = t['decl']
                if d['kind'] == 'opt':
                    w('\t' + self.enc_use(d, 'v.P'))
                else:
                    w('\t' + self.enc_use(d, '(*v)'))
            elif t['form'] == 'struct':
                for f in t['fields']:
                    w('\t' + self.enc_use(f, 'v.' + goname(f['name'])))
            elif t['form'] == 'union':
                d = t['disc']
                de = 'v.' + goname(d['name'])
                w('\t' + self.enc_use(d, de))
                isbool = d['base'] == 'bool'
                w('\tswitch {')
                for labels, a in t['arms']:
                    conds = []
                    for l in labels:
                        conds.append((de if l == 'TRUE' else '!' + de) if isbool else 'uint32(%s) == %d' % (de, g.consts[l]))
                    w('\tcase ' + ' || '.join(conds) + ':')
                    if a['kind'] != 'void':
                        w('\t\t' + self.enc_use(a, 'v.' + goname(a['name'])))
                w('\tdefault:')
                if t['default'] is not None and t['default']['kind'] != 'void':
                    w('\t\t' + self.enc_use(t['default'], 'v.' + goname(t['default']['name'])))
                w('\t}')
            w('}')
            # witness
            w('func zzFill_%s(v *%s, r *zzR, depth int) {' % (G, G))
            if t['form'] == 'enum':
                vals = ', '.join(str(v) for _, v in t['vals'])
                w('\tvals := []uint32{%s}' % vals)
                w('\t*v = %s(vals[r.next()%%uint64(len(vals))])' % G)
            elif t['form'] == 'typedef':
                d = t['decl']
                if d['kind'] == 'opt':
                    w('\t' + self.fill_use(d, 'v.P'))
                elif d['kind'] == 'plain' and d['base'] in ('u32', 'i32', 'u64', 'i64'):
                    w('\tzzSet(v, r.next())')
                elif d['kind'] == 'plain' and d['base'] == 'bool':
                    w('\t*v = r.next()%2 == 0')
                else:
                    w('\t' + self.fill_use(d, '(*v)'))
            elif t['form'] == 'struct':
                for f in t['fields']:
                    w('\t' + self.fill_use(f, 'v.' + goname(f['name'])))
            elif t['form'] == 'union':
                d = t['disc']
                de = 'v.' + goname(d['name'])
                isbool = d['base'] == 'bool'
                arms = []
                for labels, a in t['arms']:
                    for l in labels:
                        arms.append((l, a))
                if t['default'] is not None and not isbool:
                    used = set(g.consts[l] for l, _ in arms)
                    et = g.types.get(d['base'])
                    other = None
                    if et and et['form'] == 'enum':
                        for _, ev in et['vals']:
                            if ev not in used:
                                other = ev
                                break
                    if other is not None:
                        arms.append((other, t['default']))
                w('\tswitch (r.arm + int(r.next()%%7)) %% %d {' % len(arms))
                for k, (l, a) in enumerate(arms):
                    w('\tcase %d:' % k)
                    if isbool:
                        w('\t\t%s = %s' % (de, 'true' if l == 'TRUE' else 'false'))
                    else:
                        val = l if isinstance(l, int) else g.consts[l]
                        w('\t\tzzSet(&%s, %d)' % (de, val))
                    if a['kind'] != 'void':
                        w('\t\t' + self.fill_use(a, 'v.' + goname(a['name'])))
                w('\t}')
            w('}')
            w('func TestZZReplayType_%s(t *testing.T) {' % G)
            w('\tfor arm := 0; arm < 12; arm++ {')
            w('\t\tvar v %s' % G)
            w('\t\tzzFill_%s(&v, &zzR{n: uint64(arm)*7919 + 1, arm: arm}, 0)' % G)
            w('\t\tvar ref []byte')
            w('\t\tzzEnc_%s(&ref, &v)' % G)
            w('\t\tgot, err := xdr.EncodeBuf(&v)')
            w('\t\tif err != nil || !bytes.Equal(got, ref) {')
            w('\t\t\tfmt.Printf("REPLAY-MISMATCH: encoding %s value %%+v\\n  real code: %%x (err %%v)\\n  RFC layout: %%x\\n", v, got, err, ref)' % G)
            w('\t\t\treturn')
            w('\t\t}')
            w('\t\tvar d %s' % G)
            w('\t\tif err := xdr.DecodeBuf(ref, &d); err != nil {')
            w('\t\t\tfmt.Printf("REPLAY-MISMATCH: decoding the RFC layout %%x of %s value %%+v fails: %%v\\n", ref, v, err)' % G)
            w('\t\t\treturn')
            w('\t\t}')
            w('\t\tvar re []byte')
            w('\t\tzzEnc_%s(&re, &d)' % G)
            w('\t\tif !bytes.Equal(re, ref) {')
            w('\t\t\tfmt.Printf("REPLAY-MISMATCH: decoding the RFC layout %%x of %s value %%+v gives %%+v\\n", ref, v, d)' % G)
            w('\t\t\treturn')
            w('\t\t}')
            w('\t\tif len(ref) > 0 {')
            w('\t\t\tvar d2 %s' % G)
            w('\t\t\tif err := xdr.DecodeBuf(ref[:len(ref)-1], &d2); err == nil {')
            w('\t\t\t\tfmt.Printf("REPLAY-MISMATCH: the truncated message %%x is accepted as a %s\\n", ref[:len(ref)-1])' % G)
            w('\t\t\t\treturn')
            w('\t\t\t}')
            w('\t\t}')
            w('\t}')
            w('\tfmt.Println("REPLAY-AGREES")')
            w('}')
            w()

    def emit_progs(self):
        g, w = self.g, self.w
        for prog in g.progs:
            for ver in prog['vers']:
                iface = '%s_%s_handler' % (prog['name'], ver['name'])
                fake = 'zzFake_' + prog['name']
                w('type %s struct {' % fake)
                w('\tcalls []string')
                w('\targ   []byte')
                w('}')
                for pr in ver['procs']:
                    arg = None if pr['arg'] == 'void' else goname(pr['arg'])
                    ret = None if pr['ret'] == 'void' else goname(pr['ret'])
                    sig = 'func (f *%s) %s(%s)%s {' % (fake, pr['name'], ('a ' + arg) if arg else '', (' ' + ret) if ret else '')
                    w(sig)
                    w('\tf.calls = append(f.calls, "%s")' % pr['name'])
                    w('\tf.arg = nil')
                    if arg:
                        w('\tzzEnc_%s(&f.arg, &a)' % arg)
                    if ret:
                        w('\tvar r %s' % ret)
                        w('\tzzFill_%s(&r, &zzR{n: %d, arm: 1}, 0)' % (ret, pr['num'] + 3))
                        w('\treturn r')
                    w('}')
                for pr in ver['procs']:
                    arg = None if pr['arg'] == 'void' else goname(pr['arg'])
                    ret = None if pr['ret'] == 'void' else goname(pr['ret'])
                    w('func TestZZReplayWrapper_%s(t *testing.T) {' % pr['name'])
                    w('\tfor arm := 0; arm < 6; arm++ {')
                    w('\t\tf := &%s{}' % fake)
                    w('\t\tw := &%s_wrapper{f}' % iface)
                    w('\t\tvar ref []byte')
                    if arg:
                        w('\t\tvar a %s' % arg)
                        w('\t\tzzFill_%s(&a, &zzR{n: uint64(arm)*104729 + 5, arm: arm}, 0)' % arg)
                        w('\t\tzzEnc_%s(&ref, &a)' % arg)
                    w('\t\tres, err := w.%s(xdr.MakeReader(ref))' % pr['name'])
                    w('\t\t_ = res')
                    w('\t\tif err != nil || len(f.calls) != 1 || f.calls[0] != "%s" || !bytes.Equal(f.arg, ref) {' % pr['name'])
                    w('\t\t\tfmt.Printf("REPLAY-MISMATCH: wrapper %s on well-formed arguments %%x: err %%v, handler calls %%v, arguments seen by the handler %%x\\n", ref, err, f.calls, f.arg)' % pr['name'])
                    w('\t\t\treturn')
                    w('\t\t}')
                    if ret:
                        w('\t\tvar want %s' % ret)
                        w('\t\tzzFill_%s(&want, &zzR{n: %d, arm: 1}, 0)' % (ret, pr['num'] + 3))
                        w('\t\tvar wb, gb []byte')
                        w('\t\tzzEnc_%s(&wb, &want)' % ret)
                        w('\t\tif rp, ok := res.(*%s); ok && rp != nil { zzEnc_%s(&gb, rp) }' % (ret, ret))
                        w('\t\tif !bytes.Equal(wb, gb) {')
                        w('\t\t\tfmt.Printf("REPLAY-MISMATCH: wrapper %s does not hand back the handler\'s result: %%x instead of %%x\\n", gb, wb)' % pr['name'])
                        w('\t\t\treturn')
                        w('\t\t}')
                    if arg:
                        w('\t\tif len(ref) > 0 {')
                        w('\t\t\tf2 := &%s{}' % fake)
                        w('\t\t\tw2 := &%s_wrapper{f2}' % iface)
                        w('\t\t\t_, err := w2.%s(xdr.MakeReader(ref[:len(ref)-1]))' % pr['name'])
                        w('\t\t\tif err == nil || len(f2.calls) != 0 {')
                        w('\t\t\t\tfmt.Printf("REPLAY-MISMATCH: wrapper %s on the truncated arguments %%x: err %%v, handler calls %%v\\n", ref[:len(ref)-1], err, f2.calls)' % pr['name'])
                        w('\t\t\t\treturn')
                        w('\t\t\t}')
                        w('\t\t}')
                    w('\t}')
                    w('\tfmt.Println("REPLAY-AGREES")')
                    w('}')
                w('func TestZZReplayRegs_%s_%s(t *testing.T) {' % (prog['name'], ver['name']))
                w('\tf := &%s{}' % fake)
                w('\tregs := %s_%s_regs(f)' % (prog['name'], ver['name']))
                w('\tif len(regs) != %d {' % len(ver['procs']))
                w('\t\tfmt.Printf("REPLAY-MISMATCH: %%d registrations instead of %d\\n", len(regs))' % len(ver['procs']))
                w('\t\treturn')
                w('\t}')
                for pr in ver['procs']:
                    arg = None if pr['arg'] == 'void' else goname(pr['arg'])
                    w('\t{')
                    w('\t\tvar ref []byte')
                    if arg:
                        w('\t\tvar a %s' % arg)
                        w('\t\tzzFill_%s(&a, &zzR{n: 11, arm: 2}, 0)' % arg)
                        w('\t\tzzEnc_%s(&ref, &a)' % arg)
                    w('\t\tn := 0')
                    w('\t\tfor _, rg := range regs {')
                    w('\t\t\tif rg.Proc == %d {' % pr['num'])
                    w('\t\t\t\tn++')
                    w('\t\t\t\tf.calls = nil')
                    w('\t\t\t\trg.Handler(xdr.MakeReader(ref))')
                    w('\t\t\t\tif rg.Prog != %d || rg.Vers != %d || len(f.calls) != 1 || f.calls[0] != "%s" {' % (prog['num'], ver['num'], pr['name']))
                    w('\t\t\t\t\tfmt.Printf("REPLAY-MISMATCH: procedure %d of program %%d version %%d reaches handler %%v instead of %s\\n", rg.Prog, rg.Vers, f.calls)' % (pr['num'], pr['name']))
                    w('\t\t\t\t\treturn')
                    w('\t\t\t\t}')
                    w('\t\t\t}')
                    w('\t\t}')
                    w('\t\tif n != 1 {')
                    w('\t\t\tfmt.Printf("REPLAY-MISMATCH: procedure %d is registered %%d times\\n", n)' % pr['num'])
                    w('\t\t\treturn')
                    w('\t\t}')
                    w('\t}')
                w('\tfmt.Println("REPLAY-AGREES")')
                w('}')
                w()

    def emit(self):
        w = self.w
        w('package nfstypes')
        w()
        w('// GENERATED by /verif/tools/xdrgen.py --replay-test from the RFC 1813 XDR grammar: an independent')
        w('// reference encoder, witness values and differential tests of the real generated code.')
        w('import (')
        w('\t"bytes"')
        w('\t"fmt"')
        w('\t"testing"')
        w()
        w('\t"github.com/zeldovich/go-rpcgen/xdr"')
        w(')')
        w()
        w('type zzR struct {')
        w('\tn   uint64')
        w('\tarm int')
        w('}')
        w()
        w('func (r *zzR) next() uint64 { r.n = r.n*6364136223846793005 + 1442695040888963407; return r.n >> 33 }')
        w('func zzU32(b *[]byte, x uint32) { *b = append(*b, byte(x>>24), byte(x>>16), byte(x>>8), byte(x)) }')
        w('func zzU64(b *[]byte, x uint64) { zzU32(b, uint32(x>>32)); zzU32(b, uint32(x)) }')
        w('func zzBool(b *[]byte, x bool)  { if x { zzU32(b, 1) } else { zzU32(b, 0) } }')
        w('func zzFix(b *[]byte, p []byte) { *b = append(*b, p...); for len(*b)%4 != 0 { *b = append(*b, 0) } }')
        w('func zzVar(b *[]byte, p []byte) { zzU32(b, uint32(len(p))); zzFix(b, p) }')
        w('func zzSet[T ~uint32 | ~uint64 | ~int32 | ~int64](p *T, x uint64) { *p = T(x) }')
        w('func zzSetStr[T ~string](p *T, r *zzR, mx uint64) { n := r.next() % (mx + 1); s := make([]byte, n); for i := range s { s[i] = byte(97 + r.next()%26) }; *p = T(s) }')
        w('func zzSetBytes[T ~[]byte](p *T, r *zzR, mx uint64) { n := r.next() % (mx + 1); s := make([]byte, n); for i := range s { s[i] = byte(r.next()) }; *p = T(s) }')
        w()
        self.emit_types()
        self.emit_progs()
        w('var _ = testing.Short')
        return '\n'.join(self.L) + '\n'


def main():
    global OUT
    if '--repo' in sys.argv:
        OUT = os.path.join(sys.argv[sys.argv.index('--repo') + 1], 'nfstypes', 'zz_contracts_verif.go')
    consts, types, order, progs = parse(open(PROT).read())
    g = Gen(consts, types, order, progs)
    text = g.emit()
    if '--check' in sys.argv:
        cur = open(OUT).read() if os.path.exists(OUT) else ''
        if cur != text:
            print('xdrgen: %s differs from the contracts generated from %s' % (OUT, PROT))
            sys.exit(1)
        print('xdrgen: contract file matches the RFC grammar (%d types)' % len(order))
        return
    if '--replay-test' in sys.argv:
        out = sys.argv[sys.argv.index('--replay-test') + 1]
        open(out, 'w').write(Replay(g).emit())
        return
    if '--stdout' in sys.argv:
        sys.stdout.write(text)
        return
    open(OUT, 'w').write(text)
    print('wrote', OUT, len(text.splitlines()), 'lines')


if __name__ == '__main__':
    main()
