#!/usr/bin/env python3
"""prints the numbers of DESIGN.md A0 from the committed evidence files"""
import json, glob
for f in sorted(glob.glob('/verif/evidence/C*.json')):
    e = json.load(open(f)); c = e['coverage']
    print('%s | %d | %d | %.0f s | solvers %s' % (e['property_id'], c['obligations'], len(c['functions_under_contract']), e.get('wall_s', 0), ', '.join('%s:%d' % kv for kv in sorted(c['by_solver'].items()))))
