#!/bin/bash
# usage: seedbatch.sh <seed ids...>: confirms each seed (suite passes, demonstration fails with / passes without the change)
# and runs the quick check of its own property against it (2 at a time); appends to seeded/CONFIRM.txt and seeded/RESULTS.txt
cd /verif
tmp=$(mktemp -d /tmp/seedbatch.XXXXXX)
printf '%s\n' "$@" | xargs -P ${PAR:-2} -I{} sh -c 'id={}; p=${id%%-*}; tools/seedconfirm.sh /verif/seeded/$id > '$tmp'/$id.conf 2>&1; tools/seedtest.sh /verif/seeded/$id $p 2>&1 | cut -c1-400 > '$tmp'/$id.txt'
for id in "$@"; do grep "seeded/" $tmp/$id.conf | sed "s#^/verif/##" >> seeded/CONFIRM.txt; cat $tmp/$id.txt >> seeded/RESULTS.txt; done
rm -rf $tmp
