#!/bin/bash
# usage: seedconfirm.sh <seed-dir>: in a scratch worktree, confirm that the seeded change builds, passes the
# existing suite, and that its demonstration test fails with the change and passes without it.
export GOFLAGS=-mod=mod GOPROXY=off GOSUMDB=off GOTOOLCHAIN=local
d=$1
wt=$(mktemp -d /tmp/confwt.XXXXXX); rmdir $wt
git -C /repo worktree add -q --detach $wt HEAD || exit 2
trap 'git -C /repo worktree remove --force $wt' EXIT
cd $wt
git apply "$d/patch.diff" || { echo "$d: PATCH-FAIL"; exit 0; }
go build ./... >/dev/null 2>&1 || { echo "$d: BUILD-FAIL"; exit 0; }
suite=$(timeout 900 go test -vet=off -count=1 -timeout 800s ./... 2>&1)
oks=$(echo "$suite" | grep -c "^ok")
fails=$(echo "$suite" | grep -c "^FAIL\|^--- FAIL\|panic:")
demo="none"; orig="none"
for f in $d/zz_demo*_test.go; do
  [ -f "$f" ] || continue
  pkg=$(grep -m1 "^package " $f | awk '{print $2}' | sed 's/_test$//')
  cp $f $wt/$pkg/
done
if ls $d/zz_demo*_test.go >/dev/null 2>&1; then
  out=$(timeout 600 go test -vet=off -count=1 -timeout 500s -run 'Demo' ./... 2>&1)
  if echo "$out" | grep -q "^--- FAIL\|^FAIL\|panic:"; then demo="FAILS(as expected)"; else demo="passes(UNEXPECTED)"; fi
  git apply -R "$d/patch.diff"
  out2=$(timeout 600 go test -vet=off -count=1 -timeout 500s -run 'Demo' ./... 2>&1)
  if echo "$out2" | grep -q "^--- FAIL\|^FAIL\|panic:"; then orig="fails(UNEXPECTED)"; else orig="passes(as expected)"; fi
fi
echo "$d: suite ok=$oks fail=$fails demo-with-change=$demo demo-without=$orig"
