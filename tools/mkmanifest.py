#!/usr/bin/env python3
"""Regenerates /verif/MANIFEST.json from the table below (single source of truth)."""
import json, subprocess, os

GOENV = "GOFLAGS=-mod=mod GOPROXY=off GOSUMDB=off GOTOOLCHAIN=local"
TECH = "contract-based deductive verification: WP/VC generation over go/ssa of /repo, contracts in zz_contracts_verif.go (tag verif), discharged by z3 5.1.0 / z3 4.8.12 / cvc5 1.0"

# id -> (claimed?, level text, level note, design ref)  -- filled in as contracts come online
CLAIMS = json.load(open(os.path.join(os.path.dirname(__file__), "claims.json")))

def hook_commits():
    try:
        out = subprocess.run(["git", "-C", "/repo", "log", "--format=%H %s"], capture_output=True, text=True).stdout
        return [l.split()[0] for l in out.splitlines() if l.split(" ", 1)[1].startswith("verif:")]
    except Exception:
        return []

props = [json.loads(l) for l in open("/verif/properties.jsonl")]
checks, na = [], []
for p in props:
    pid = p["id"]
    c = CLAIMS.get(pid, {})
    if c.get("claimed"):
        checks.append({
            "property_id": pid,
            "quick_cmd": f"bin/govc check --prop {pid} --tier quick",
            "thorough_cmd": f"bin/govc check --prop {pid} --tier thorough",
            "evidence_file": f"/verif/evidence/{pid}.json",
            "replay_cmd_template": "cat {path}",
            "engine": "govc",
            "level_claimed": {"category": "proof", "text": c["text"], "design_ref": c.get("design_ref", "DESIGN.md Part A, A4 " + pid)},
            "level_note": c["note"],
            "technique": TECH,
        })
    else:
        na.append({"property_id": pid, "reason": c.get("reason", "contracts for this property are not discharged yet; no obligation is claimed (see DESIGN.md A4 " + pid + ")")})

m = {
    "version": 1,
    "setup_cmd": f"mkdir -p bin && cd govc && {GOENV} go build -o ../bin/govc .",
    "hooks": {
        "guard": "verif",
        "enable": "go build -tags verif ./... (the only guarded files are comment-only zz_contracts_verif.go contract files; govc loads /repo with -tags=verif)",
        "baseline_off_cmd": "cd /repo && GOFLAGS=-mod=mod go test -vet=off -count=1 -timeout 25m ./...",
        "source_commits": hook_commits(),
        "add_only": True,
    },
    "engines": [{"name": "govc", "path": "/verif/govc", "serves_properties": [c["property_id"] for c in checks],
                 "kind_free_text": "self-written deductive verifier for Go: contracts (requires/ensures/modifies/loop invariants/ghost state) -> verification conditions over go/ssa -> SMT portfolio"}],
    "checks": checks,
    "not_applicable": na,
    "notes": "All checks rebuild their verification conditions from /repo's working tree on every run. Known findings: /verif/known_findings.json.",
}
json.dump(m, open("/verif/MANIFEST.json", "w"), indent=1)
print(len(checks), "claimed;", len(na), "not applicable")
