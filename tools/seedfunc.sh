#!/bin/bash
# usage: seedfunc.sh <seed-dir> <function keys...>: verify single functions on a scratch copy with the seed applied
export GOFLAGS=-mod=mod GOPROXY=off GOSUMDB=off GOTOOLCHAIN=local
d=$1; shift
wt=$(mktemp -d /tmp/seedwt.XXXXXX); rmdir $wt
git -C /repo worktree add -q --detach $wt HEAD || exit 2
trap 'git -C /repo worktree remove --force $wt; rm -rf $wt.out' EXIT
git -C $wt apply "$d/patch.diff" || { echo "patch does not apply"; exit 2; }
cd /verif
VERIF_OUT=$wt.out bin/govc func --repo $wt "$@" 2>&1 | grep -v "discharged\|cover-ok" | cut -c1-260
