#!/bin/bash
# runs every claimed quick check once on /repo and prints one line per property (used before committing evidence)
cd "$(dirname "$0")/.."
export GOFLAGS=-mod=mod GOPROXY=off GOSUMDB=off GOTOOLCHAIN=local
[ -x bin/govc ] || (mkdir -p bin && cd govc && go build -o ../bin/govc .)
for p in ${@:-C01 C02 C03 C04 C05 C06 C07 C08 C09 C10 C11 C12 C13 C14 C15 C16 C17 C18 C19}; do
  s=$(date +%s); out=$(bin/govc check --prop $p --tier ${TIER:-quick} 2>&1); rc=$?
  echo "$p exit=$rc $(( $(date +%s)-s ))s $(echo "$out" | tail -1 | cut -c1-200)"
  echo "$out" | grep "^VIOLATION\|^KNOWN" | cut -c1-250
done
