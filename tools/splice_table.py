#!/usr/bin/env python3
"""copies seeded/TABLE.md into DESIGN.md between the SEEDTABLE markers"""
p='/verif/DESIGN.md'
s=open(p).read()
t=open('/verif/seeded/TABLE.md').read().split('\n',2)[2]  # drop the title line
i=s.find('<!-- SEEDTABLE-BEGIN -->')+len('<!-- SEEDTABLE-BEGIN -->')
j=s.find('<!-- SEEDTABLE-END -->')
open(p,'w').write(s[:i]+'\n'+t.strip()+'\n'+s[j:])
