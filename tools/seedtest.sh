#!/bin/bash
# usage: seedtest.sh <seed-dir> <prop> [more props...]
# Applies <seed-dir>/patch.diff to a scratch worktree of /repo's HEAD (never to /repo itself),
# runs the quick checks against it with outputs redirected, and removes the worktree.
export GOFLAGS=-mod=mod GOPROXY=off GOSUMDB=off GOTOOLCHAIN=local
d=$1; shift
wt=$(mktemp -d /tmp/seedwt.XXXXXX); rmdir $wt
git -C /repo worktree add -q --detach $wt HEAD || exit 2
trap 'git -C /repo worktree remove --force $wt; rm -rf $wt.out' EXIT
git -C $wt apply "$d/patch.diff" || { echo "== $d: patch does not apply"; exit 2; }
(cd $wt && go build ./...) || { echo "== $d: does not build"; exit 2; }
cd /verif
# snapshot of the machinery, so that edits made to /verif while a batch runs do not leak into it
snap=$wt.snap; mkdir -p $snap; cp -r contracts tools known_findings.json $snap/; cp bin/govc $snap/govc
trap 'git -C /repo worktree remove --force $wt; rm -rf $wt.out $wt.snap' EXIT
for p in "$@"; do
  out=$(VERIF_DIR=$snap VERIF_OUT=$wt.out $snap/govc check --repo $wt --prop $p --tier quick 2>&1); rc=$?
  echo "== $d $p exit=$rc $(echo "$out" | tail -1 | cut -c1-100)"
  echo "$out" | grep "^VIOLATION" | sed "s|$wt.out|OUT|" | cut -c1-230 | head -6
done
