#!/bin/bash
# usage: seedtest.sh <seed-dir> <prop> [more props...]   applies patch.diff to /repo, runs the quick checks, restores /repo
export GOFLAGS=-mod=mod GOPROXY=off GOSUMDB=off GOTOOLCHAIN=local
d=$1; shift
cd /repo || exit 2
if [ -n "$(git status --porcelain --untracked-files=no)" ]; then echo "repo not clean"; exit 2; fi
git apply "$d/patch.diff" || { echo "patch does not apply"; exit 2; }
go build ./... || { echo "does not build"; git checkout -- .; exit 2; }
cd /verif
for p in "$@"; do
  out=$(bin/govc check --prop $p --tier quick 2>&1); rc=$?
  echo "== $d $p exit=$rc"
  echo "$out" | grep "^VIOLATION" | cut -c1-260 | head -8
done
git -C /repo checkout -- .
