#!/bin/bash
# runs every seeded change under /verif/seeded against the quick check of its own property (3 at a time);
# writes seeded/RESULTS.txt, then tools/seedtable.py turns it into seeded/TABLE.md
cd /verif
tmp=$(mktemp -d /tmp/seedall.XXXXXX)
ls -d seeded/C*-* | sort -t- -k1,1 -k2,2n | xargs -P 3 -I{} sh -c 'id=$(basename {}); p=${id%%-*}; tools/seedtest.sh /verif/{} $p 2>&1 | cut -c1-400 > '$tmp'/$id.txt'
: > seeded/RESULTS.txt
for t in $(ls -d seeded/C*-* | sort -t- -k1,1 -k2,2n); do cat $tmp/$(basename $t).txt >> seeded/RESULTS.txt; done
rm -rf $tmp
python3 tools/seedtable.py
