#!/bin/bash
# runs every seeded change under /verif/seeded against the quick check of its own property; writes seeded/RESULTS.txt
cd /verif
out=seeded/RESULTS.txt; : > $out
for t in seeded/C*-*; do
  id=$(basename $t); p=${id%%-*}
  tools/seedtest.sh /verif/$t $p 2>&1 | cut -c1-400 >> $out
done
