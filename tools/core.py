#!/usr/bin/env python3
"""debug helper: unsat core of a standalone govc query.  usage: core.py file.smt2 [goal-substitute]
If a second argument is given the final (assert (not ...)) goal is replaced by (assert <arg>)."""
import sys, subprocess, json
lines=open(sys.argv[1]).read().split('\n')
# drop everything after first check-sat
out=['(set-option :produce-unsat-cores true)']
n=0; names={}
last_assert=None
for i,l in enumerate(lines):
    if l.startswith('(check-sat'):
        break
for j in range(i,-1,-1):
    if lines[j].startswith('(assert '):
        last_assert=j; break
for k,l in enumerate(lines[:i+1]):
    if k==last_assert and len(sys.argv)>2:
        l='(assert %s)'%sys.argv[2]
    if l.startswith('(assert ') and l.endswith(')'):
        n+=1
        out.append('(assert (! %s :named A%d))'%(l[8:-1],n)); names['A%d'%n]=l
    elif l.startswith('(get-model') or l.startswith('(set-option :timeout') or l.startswith('(push') or l.startswith('(pop'):
        continue
    else:
        out.append(l)
out.append('(get-unsat-core)')
open('/tmp/core.smt2','w').write('\n'.join(out))
r=subprocess.run(['z3-new','-T:120','/tmp/core.smt2'],capture_output=True,text=True).stdout
print(r.split('\n')[0])
core=r.split('\n')[1].strip('()').split() if '\n' in r else []
for a in core:
    print(a, names.get(a,'?')[:1200]); print()
