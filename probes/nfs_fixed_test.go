package nfs

// Regression probes for the defects repaired by "fix:" commits (DESIGN.md §6).
// Injected with `go test -overlay` (nothing is written into /repo); each probe
// failed on the pinned tree before the corresponding fix.

import (
	"bytes"
	"strings"
	"testing"
	"time"

	"github.com/mit-pdos/go-nfsd/fh"
	"github.com/mit-pdos/go-nfsd/nfstypes"
	"github.com/zeldovich/go-rpcgen/xdr"
)

func within(t *testing.T, d time.Duration, what string, f func()) {
	done := make(chan struct{})
	go func() { defer close(done); f() }()
	select {
	case <-done:
	case <-time.After(d):
		t.Fatalf("%s: did not return within %v", what, d)
	}
}

func nopanic(t *testing.T, what string, f func()) {
	defer func() {
		if r := recover(); r != nil {
			t.Fatalf("%s: server panicked: %v", what, r)
		}
	}()
	f()
}

func TestZZFixedD03RemoveDot(t *testing.T) {
	c := MkNfsClient(100 * 1000)
	defer c.Shutdown()
	nopanic(t, "REMOVE .", func() {
		if r := c.RemoveOp(fh.MkRootFh3(), "."); r.Status == 0 {
			t.Fatalf("REMOVE . succeeded")
		}
	})
	if r := c.CreateOp(fh.MkRootFh3(), "after"); r.Status != 0 {
		t.Fatalf("server unusable afterwards: %d", r.Status)
	}
}

func TestZZFixedD04Handles(t *testing.T) {
	c := MkNfsClient(100 * 1000)
	defer c.Shutdown()
	for _, h := range [][]byte{nil, {1, 2, 3}, make([]byte, 15)} {
		nopanic(t, "short handle", func() {
			if r := c.GetattrOp(nfstypes.Nfs_fh3{Data: h}); r.Status != nfstypes.NFS3ERR_STALE {
				t.Fatalf("short handle: status %d", r.Status)
			}
		})
	}
	big := fh.Fh{Ino: 1 << 40, Gen: 1}.MakeFh3()
	nopanic(t, "huge inum", func() {
		if r := c.GetattrOp(big); r.Status != nfstypes.NFS3ERR_STALE {
			t.Fatalf("huge inum: status %d", r.Status)
		}
	})
}

func TestZZFixedD05FailedRename(t *testing.T) {
	c := MkNfsClient(100 * 1000)
	defer c.Shutdown()
	root := fh.MkRootFh3()
	c.CreateOp(root, "src")
	r := c.RenameOp(root, "src", root, strings.Repeat("x", 200))
	if r == 0 {
		t.Fatalf("rename to a 200-byte name succeeded")
	}
	if l := c.LookupOp(root, "src"); l.Status != 0 {
		t.Fatalf("failed RENAME removed its source (lookup status %d)", l.Status)
	}
}

func TestZZFixedD06D07Write(t *testing.T) {
	c := MkNfsClient(100 * 1000)
	defer c.Shutdown()
	root := fh.MkRootFh3()
	f := c.CreateOp(root, "f").Resok.Obj.Handle
	nopanic(t, "count > len(data)", func() {
		r := c.srv.NFSPROC3_WRITE(nfstypes.WRITE3args{File: f, Offset: 0, Count: 100, Stable: nfstypes.FILE_SYNC, Data: make([]byte, 10)})
		if r.Status == 0 {
			t.Fatalf("accepted count 100 with 10 bytes")
		}
	})
	nopanic(t, "offset+count wraps", func() {
		r := c.srv.NFSPROC3_WRITE(nfstypes.WRITE3args{File: f, Offset: nfstypes.Offset3(^uint64(0) - 9), Count: 100, Stable: nfstypes.FILE_SYNC, Data: make([]byte, 100)})
		if r.Status == 0 {
			t.Fatalf("accepted a write at offset 2^64-10")
		}
	})
	if g := c.GetattrOp(f); g.Status != 0 || g.Resok.Obj_attributes.Size != 0 {
		t.Fatalf("refused writes left a trace: status %d size %d", g.Status, g.Resok.Obj_attributes.Size)
	}
}

func TestZZFixedD09TruncateLeak(t *testing.T) {
	for _, nblk := range []uint64{505, 507, 509} {
		c := MkNfsClient(100 * 1000)
		root := fh.MkRootFh3()
		free0 := c.srv.fsstate.Balloc.NumFree()
		f := c.CreateOp(root, "f").Resok.Obj.Handle
		blk := bytes.Repeat([]byte{0xab}, 4096)
		for i := uint64(0); i < nblk; i++ {
			if w := c.WriteOp(f, i*4096, blk, nfstypes.FILE_SYNC); w.Status != 0 {
				t.Fatalf("write %d: %d", i, w.Status)
			}
		}
		c.SetattrOp(f, 0)
		c.srv.shrinkst.Shutdown()
		c.RemoveOp(root, "f")
		c.srv.shrinkst.Shutdown()
		// the root directory keeps its one data block
		c.CreateOp(root, "g")
		c.RemoveOp(root, "g")
		free1 := c.srv.fsstate.Balloc.NumFree()
		if free0-free1 > 1 {
			t.Fatalf("%d-block file: %d blocks leaked", nblk, free0-free1-1)
		}
		c.Shutdown()
	}
}

func TestZZFixedD13RenameSelf(t *testing.T) {
	c := MkNfsClient(100 * 1000)
	defer c.Shutdown()
	root := fh.MkRootFh3()
	d := c.MkDirOp(root, "d").Resok.Obj.Handle
	c.CreateOp(d, "f")
	within(t, 5*time.Second, "RENAME(root,d -> d,f)", func() {
		c.RenameOp(root, "d", d, "f")
	})
}

func TestZZFixedD15D17Dirs(t *testing.T) {
	c := MkNfsClient(100 * 1000)
	defer c.Shutdown()
	root := fh.MkRootFh3()
	a := c.MkDirOp(root, "a").Resok.Obj.Handle
	c.MkDirOp(a, "b")
	if r := c.RemoveOp(root, "a"); r.Status == 0 {
		t.Fatalf("REMOVE of a non-empty directory succeeded")
	}
	c.RmDirOp(a, "b")
	if r := c.RmDirOp(root, "a"); r.Status != 0 {
		t.Fatalf("rmdir a: %d", r.Status)
	}
	if g := c.GetattrOp(a); g.Status != nfstypes.NFS3ERR_STALE {
		t.Fatalf("removed directory that once had a subdirectory is still live (status %d)", g.Status)
	}
}

func TestZZFixedD19Names(t *testing.T) {
	c := MkNfsClient(100 * 1000)
	defer c.Shutdown()
	root := fh.MkRootFh3()
	for _, n := range []string{"", "a/b", ".", ".."} {
		if r := c.CreateOp(root, n); r.Status == 0 {
			t.Fatalf("CREATE %q succeeded", n)
		}
	}
	if r := c.CreateOp(root, strings.Repeat("n", 112)); r.Status != 0 {
		t.Fatalf("name of name_max (112) bytes refused: %d", r.Status)
	}
	if r := c.CreateOp(root, strings.Repeat("n", 113)); r.Status == 0 {
		t.Fatalf("name of 113 bytes accepted")
	}
}

func TestZZFixedD21D26Cookies(t *testing.T) {
	c := MkNfsClient(100 * 1000)
	defer c.Shutdown()
	root := fh.MkRootFh3()
	c.CreateOp(root, "x")
	c.CreateOp(root, "y")
	nopanic(t, "cookie 1", func() {
		r := c.srv.NFSPROC3_READDIR(nfstypes.READDIR3args{Dir: root, Cookie: 1, Count: 4096})
		if r.Status == 0 {
			t.Fatalf("cookie 1 accepted")
		}
	})
	// one entry per call: must visit . .. x y exactly once and end
	var names []string
	cookie := nfstypes.Cookie3(0)
	for i := 0; i < 10; i++ {
		r := c.srv.NFSPROC3_READDIR(nfstypes.READDIR3args{Dir: root, Cookie: cookie, Count: 70})
		if r.Status != 0 {
			t.Fatalf("readdir: %d", r.Status)
		}
		for e := r.Resok.Reply.Entries; e != nil; e = e.Nextentry {
			names = append(names, string(e.Name))
			cookie = e.Cookie
		}
		if r.Resok.Reply.Eof {
			break
		}
	}
	if strings.Join(names, ",") != ".,..,x,y" {
		t.Fatalf("one-entry-per-call enumeration returned %v", names)
	}
}

func TestZZFixedD22D25Sizes(t *testing.T) {
	c := MkNfsClient(100 * 1000)
	defer c.Shutdown()
	root := fh.MkRootFh3()
	f := c.CreateOp(root, "f").Resok.Obj.Handle
	if r := c.SetattrOp(f, 1<<62); r.Status == 0 {
		t.Fatalf("SETATTR size 2^62 accepted")
	}
	c.WriteOp(f, 0, bytes.Repeat([]byte{0xff}, 4096), nfstypes.FILE_SYNC)
	c.SetattrOp(f, 100)
	c.SetattrOp(f, 4096)
	r := c.ReadOp(f, 0, 4096)
	for i := 100; i < len(r.Resok.Data); i++ {
		if r.Resok.Data[i] != 0 {
			t.Fatalf("byte %d reads %#x after shrink to 100 and grow to 4096", i, r.Resok.Data[i])
		}
	}
	if len(r.Resok.Data) != 4096 || !r.Resok.Eof {
		t.Fatalf("read returned %d bytes eof=%v", len(r.Resok.Data), r.Resok.Eof)
	}
}

// D-35: RENAME over an existing (empty) directory dropped the target without
// giving back the link the target's ".." held on its parent.
func TestZZFixedD35RenameOverDirLinks(t *testing.T) {
	c := MkNfsClient(100 * 1000)
	defer c.Shutdown()
	root := fh.MkRootFh3()
	a := c.MkDirOp(root, "a").Resok.Obj.Handle
	c.MkDirOp(a, "x")
	c.MkDirOp(a, "y")
	if st := c.RenameOp(a, "x", a, "y"); st != 0 {
		t.Fatalf("rename a/x -> a/y: %d", st)
	}
	if r := c.RmDirOp(a, "y"); r.Status != 0 {
		t.Fatalf("rmdir a/y: %d", r.Status)
	}
	if r := c.RmDirOp(root, "a"); r.Status != 0 {
		t.Fatalf("rmdir a: %d", r.Status)
	}
	if g := c.GetattrOp(a); g.Status != nfstypes.NFS3ERR_STALE {
		t.Fatalf("directory a is still live after rmdir (status %d): its link count was never lowered when y was replaced", g.Status)
	}
}

// D-36: a commit the journal refuses (transaction larger than the log) ran
// PostCommit instead of PostAbort: the blocks the transaction had allocated
// stayed allocated in memory until the next restart.
func TestZZFixedD36FailedCommitGivesBack(t *testing.T) {
	c := MkNfsClient(100 * 1000)
	defer c.Shutdown()
	root := fh.MkRootFh3()
	f := c.CreateOp(root, "big").Resok.Obj.Handle
	before := c.srv.fsstate.Balloc.NumFree()
	data := make([]byte, 510*4096)
	r := c.WriteOp(f, 0, data, nfstypes.FILE_SYNC)
	if r.Status == 0 {
		t.Skipf("the oversized WRITE was accepted; nothing to check")
	}
	after := c.srv.fsstate.Balloc.NumFree()
	if after != before {
		t.Fatalf("failed WRITE (status %d) consumed %d blocks of the in-memory allocator", r.Status, before-after)
	}
}

// D-18: the write verifier was never set: WRITE and COMMIT replied with eight
// zero bytes in every server instance, so a client could not notice a restart.
func TestZZFixedD18WriteVerifier(t *testing.T) {
	c := MkNfsClient(100 * 1000)
	root := fh.MkRootFh3()
	f := c.CreateOp(root, "f").Resok.Obj.Handle
	w := c.WriteOp(f, 0, []byte("data"), nfstypes.UNSTABLE)
	cm := c.CommitOp(f, 4)
	if w.Status != 0 || cm.Status != 0 {
		t.Fatalf("write %d commit %d", w.Status, cm.Status)
	}
	if w.Resok.Verf != cm.Resok.Verf {
		t.Fatalf("WRITE and COMMIT of one instance disagree on the verifier")
	}
	v1 := w.Resok.Verf
	c.Shutdown()
	time.Sleep(2 * time.Millisecond)
	c2 := MkNfsClient(100 * 1000)
	defer c2.Shutdown()
	f2 := c2.CreateOp(root, "f").Resok.Obj.Handle
	w2 := c2.WriteOp(f2, 0, []byte("data"), nfstypes.UNSTABLE)
	if w2.Resok.Verf == v1 {
		t.Fatalf("two server instances use the same write verifier %v", v1)
	}
}

// D-37: a CREATE request whose createhow3 discriminant is not a declared
// createmode3 value (RFC 1813: UNCHECKED=0, GUARDED=1, EXCLUSIVE=2) is malformed;
// the decoder must reject it instead of handing the handler a half-decoded value.
func TestZZFixedD37CreatehowBadMode(t *testing.T) {
	args := nfstypes.CREATE3args{Where: nfstypes.Diropargs3{Dir: fh.MkRootFh3(), Name: "f"}}
	args.How.Mode = nfstypes.UNCHECKED
	buf, err := xdr.EncodeBuf(&args)
	if err != nil {
		t.Fatal(err)
	}
	// the discriminant is the word after diropargs3: handle (4+16), name (4+4)
	off := 4 + 16 + 4 + 4
	if buf[off+3] != 0 {
		t.Fatalf("unexpected layout %x", buf)
	}
	buf = append([]byte{}, buf[:off+4]...)
	buf[off+3] = 7 // no such createmode3; nothing follows
	var in nfstypes.CREATE3args
	if err := xdr.DecodeBuf(buf, &in); err == nil {
		t.Fatalf("CREATE3args with createmode3 = 7 decoded without error: mode=%d", in.How.Mode)
	}
}

// D-38: the tail of the last kept block was not cleared by an unaligned
// truncate in the double-indirect range (block 520 and beyond): bmap reported
// "allocated" for every double-indirect lookup (it compared the new
// double-indirect root with the *indirect* slot), and zeroTail skips blocks
// reported as just allocated.
func TestZZFixedD38TailInDoubleIndirectRange(t *testing.T) {
	c := MkNfsClient(100 * 1000)
	defer c.Shutdown()
	root := fh.MkRootFh3()
	f := c.CreateOp(root, "f").Resok.Obj.Handle
	const blk = 600 // > 8 + 512
	off := uint64(blk * 4096)
	if r := c.WriteOp(f, off, bytes.Repeat([]byte{0xee}, 4096), nfstypes.FILE_SYNC); r.Status != 0 {
		t.Fatalf("write: %d", r.Status)
	}
	if r := c.SetattrOp(f, off+100); r.Status != 0 {
		t.Fatalf("shrink: %d", r.Status)
	}
	if r := c.SetattrOp(f, off+4096); r.Status != 0 {
		t.Fatalf("grow: %d", r.Status)
	}
	r := c.ReadOp(f, off, 4096)
	if r.Status != 0 || len(r.Resok.Data) != 4096 {
		t.Fatalf("read: %d, %d bytes", r.Status, len(r.Resok.Data))
	}
	for i := 100; i < 4096; i++ {
		if r.Resok.Data[i] != 0 {
			t.Fatalf("byte %d of block %d reads %#x after shrink to +100 and grow to +4096", i, blk, r.Resok.Data[i])
		}
	}
}

// D-39: a WRITE that runs out of space right after allocating an index block commits the blocks
// it did write; the index block stays in the inode above the end of file and was never freed.
func TestZZFixedD39IndexBlockAboveEof(t *testing.T) {
	c := MkNfsClient(100 * 1000)
	defer c.Shutdown()
	root := fh.MkRootFh3()
	blk := bytes.Repeat([]byte{0xab}, 4096)
	f := c.CreateOp(root, "f").Resok.Obj.Handle
	g := c.CreateOp(root, "g").Resok.Obj.Handle
	free0 := c.srv.fsstate.Balloc.NumFree()
	for i := uint64(0); i < 7; i++ {
		if w := c.WriteOp(f, i*4096, blk, nfstypes.FILE_SYNC); w.Status != 0 {
			t.Fatalf("write f %d: %d", i, w.Status)
		}
	}
	for i := uint64(0); c.srv.fsstate.Balloc.NumFree() > 2; i++ {
		if w := c.WriteOp(g, i*4096, blk, nfstypes.FILE_SYNC); w.Status != 0 {
			t.Fatalf("fill %d: %d free %d", i, w.Status, c.srv.fsstate.Balloc.NumFree())
		}
	}
	if n := c.srv.fsstate.Balloc.NumFree(); n != 2 {
		t.Fatalf("could not leave exactly two free blocks: %d", n)
	}
	w := c.WriteOp(f, 7*4096, append(append([]byte{}, blk...), blk...), nfstypes.FILE_SYNC)
	t.Logf("two-block write at block 7 with two free blocks: status %d count %d, free now %d", w.Status, w.Resok.Count, c.srv.fsstate.Balloc.NumFree())
	c.RemoveOp(root, "f")
	c.srv.shrinkst.Shutdown()
	c.RemoveOp(root, "g")
	c.srv.shrinkst.Shutdown()
	if free1 := c.srv.fsstate.Balloc.NumFree(); free1 != free0 {
		t.Fatalf("after removing both files %d blocks are free, %d were free before they were written: %d leaked", free1, free0, free0-free1)
	}
}

// D-40: SYMLINK ignored how many bytes of the target inode.Write stored: when the disk ran out of
// space after the first block, the link was created with a truncated target and the reply said OK.
func TestZZFixedD40SymlinkTargetTruncated(t *testing.T) {
	c := MkNfsClient(100 * 1000)
	defer c.Shutdown()
	root := fh.MkRootFh3()
	blk := bytes.Repeat([]byte{0xab}, 4096)
	g := c.CreateOp(root, "g").Resok.Obj.Handle
	for i := uint64(0); c.srv.fsstate.Balloc.NumFree() > 1; i++ {
		if w := c.WriteOp(g, i*4096, blk, nfstypes.FILE_SYNC); w.Status != 0 {
			t.Fatalf("fill %d: %d free %d", i, w.Status, c.srv.fsstate.Balloc.NumFree())
		}
	}
	if n := c.srv.fsstate.Balloc.NumFree(); n != 1 {
		t.Fatalf("could not leave exactly one free block: %d", n)
	}
	target := strings.Repeat("abcdefgh", 1024) // 8192 bytes: two blocks
	r := c.SymLinkOp(root, "l", nfstypes.Nfspath3(target))
	if r.Status != 0 {
		t.Logf("SYMLINK refused with status %d (fine: no space for the whole target)", r.Status)
		if l := c.LookupOp(root, "l"); l.Status == 0 {
			t.Fatalf("refused SYMLINK left the name behind")
		}
		return
	}
	rl := c.ReadLinkOp(r.Resok.Obj.Handle)
	if rl.Status != 0 || string(rl.Resok.Data) != target {
		t.Fatalf("SYMLINK answered OK but READLINK returns %d of the %d bytes of the target (status %d)", len(rl.Resok.Data), len(target), rl.Status)
	}
}
