package main

// Symbolic values and the heap-leaf model (DESIGN.md §2.2).
//
// Every Go value is represented by a verifier-level Value whose leaves are
// SMT-LIB terms (strings). Integers are bit-vectors of their Go width,
// references are Ints (0 = nil, objects > 0, allocation frontier monotone),
// strings are an uninterpreted sort Str with slen/sarr, struct values are
// flattened records, slices are (base, off, len, cap).

import (
	"fmt"
	"go/types"
	"sort"
	"strings"

	"golang.org/x/tools/go/ssa"
)

type Value interface{}

// Scalar: ints, bools, strings, maps (ref), chans/funcs (opaque ref).
type Scalar struct {
	T   string
	Typ types.Type
}

// Step is one component of an interior pointer path.
type Step struct {
	Field string // struct field name, or "" for index
	Idx   string // BV64 term when Field == ""
}

// Ptr is a pointer: Base is an Int term naming the object, Root is the type of
// that object (struct, basic cell, or array/slice backing), Path descends
// into it.
type Ptr struct {
	Base  string
	Root  types.Type
	Path  []Step
	Fresh bool // non-nil by construction (allocation, element address): no nil check
	New   bool // the object was allocated by the function under verification
	Own   *Owner
}

// Owner records that a slice was loaded from field Key of object Base, so
// that element writes can trigger the hooks declared for "Key[*]".
type Owner struct {
	Key  string
	Base string
	Root types.Type
}

type Record struct {
	Typ    types.Type // struct (possibly named)
	Fields []Value
}

type SliceV struct {
	Base, Off, Len, Cap string
	Elem                types.Type
	Own                 *Owner
	New                 bool // backing array allocated by the function under verification
	// Region is the heap class of the backing array: the key of the field the
	// slice was loaded from ("" = not yet owned by a field). Arrays referenced
	// from different fields are assumed (and, at stores, checked) not to alias.
	Region string
	// Owner is the object whose owned field holds this slice: the elements of
	// an owned array are indexed by their owner (each owner has its own array:
	// the ownership invariant), not by the array's reference.
	Owner string
}

// eb is the reference under which the elements are stored in the heap.
func (s SliceV) eb() string {
	if s.Region != "" && s.Owner != "" {
		return s.Owner
	}
	return s.Base
}

var regionTypes = map[string]types.Type{}

// sliceRoot is the root type of the backing array of a slice in a region.
func sliceRoot(elem types.Type, region string) types.Type {
	k := region + "|" + elemKey(elem)
	if t, ok := regionTypes[k]; ok {
		return t
	}
	tn := types.NewTypeName(0, nil, "region:"+region, nil)
	nt := types.NewNamed(tn, types.NewSlice(elem), nil)
	regionTypes[k] = nt
	return nt
}

func (s SliceV) root() types.Type { return sliceRoot(s.Elem, s.Region) }
func (s SliceV) key() string      { return rootKey(s.root()) }

type Iface struct {
	Tag, Ref string
	Dyn      Value // known dynamic value, if any
	Typ      types.Type
}

type Tuple struct{ Vals []Value }

// ArrayV is a small fixed-size array value (e.g. the 8-byte write verifier).
type ArrayV struct {
	Typ   types.Type
	Elems []Value
}

type Closure struct {
	Fn       *ssa.Function
	Bindings []Value
}

// FuncV is a function value that is not a closure we can see through.
type FuncV struct {
	Fn   *ssa.Function // may be nil (parameter callback)
	Name string
	Typ  types.Type
}

// GhostArr is a ghost total map (SMT array) used only in contracts.
type GhostArr struct {
	T    string
	Sort string
	Typ  *GhostType
}

// UntypedInt is an untyped integer constant in a contract expression.
type UntypedInt struct{ N string } // decimal

type GhostType struct {
	Key  *GhostType // nil for scalar
	Val  *GhostType
	Base types.Type // scalar Go type when Key == nil
}

func (g *GhostType) Sort() string {
	if g.Key == nil {
		return sortOf(g.Base)
	}
	return "(Array " + g.Key.Sort() + " " + g.Val.Sort() + ")"
}

// ---------- sorts ----------

func bvWidth(t types.Type) (int, bool, bool) { // width, signed, ok
	b, ok := t.Underlying().(*types.Basic)
	if !ok {
		return 0, false, false
	}
	switch b.Kind() {
	case types.Int, types.Int64:
		return 64, true, true
	case types.Uint, types.Uint64, types.Uintptr:
		return 64, false, true
	case types.Int32:
		return 32, true, true
	case types.Uint32:
		return 32, false, true
	case types.Int16:
		return 16, true, true
	case types.Uint16:
		return 16, false, true
	case types.Int8:
		return 8, true, true
	case types.Uint8:
		return 8, false, true
	case types.UntypedInt, types.UntypedRune:
		return 64, true, true
	}
	return 0, false, false
}

func isBool(t types.Type) bool {
	b, ok := t.Underlying().(*types.Basic)
	return ok && (b.Kind() == types.Bool || b.Kind() == types.UntypedBool)
}

func isString(t types.Type) bool {
	b, ok := t.Underlying().(*types.Basic)
	return ok && (b.Kind() == types.String || b.Kind() == types.UntypedString)
}

func isFloat(t types.Type) bool {
	b, ok := t.Underlying().(*types.Basic)
	return ok && (b.Info()&types.IsFloat != 0 || b.Info()&types.IsComplex != 0)
}

// sortOf gives the SMT sort of a scalar Go type.
func sortOf(t types.Type) string {
	if w, _, ok := bvWidth(t); ok {
		return fmt.Sprintf("(_ BitVec %d)", w)
	}
	if isBool(t) {
		return "Bool"
	}
	if isString(t) {
		return "Str"
	}
	if isFloat(t) {
		return "Real"
	}
	return "Int" // pointers, maps, chans, funcs, unsafe.Pointer
}

func bvLit(n uint64, w int) string {
	if w%4 == 0 {
		return fmt.Sprintf("#x%0*x", w/4, n&mask(w))
	}
	return fmt.Sprintf("(_ bv%d %d)", n&mask(w), w)
}

func mask(w int) uint64 {
	if w >= 64 {
		return ^uint64(0)
	}
	return (uint64(1) << uint(w)) - 1
}

// ---------- type names / leaves ----------

func typeKey(t types.Type) string {
	if b, ok := t.(*types.Basic); ok && b.Kind() != types.UnsafePointer && b.Kind() < types.UntypedBool && b.Kind() != types.Invalid {
		return types.Typ[b.Kind()].Name() // byte -> uint8, rune -> int32
	}
	return types.TypeString(t, func(p *types.Package) string { return p.Name() })
}

// rootKey names the heap "class" of an object of type t.
func rootKey(t types.Type) string {
	switch u := t.(type) {
	case *types.Named:
		if _, ok := u.Underlying().(*types.Struct); ok {
			return typeKey(t)
		}
		if sl, ok := u.Underlying().(*types.Slice); ok && strings.HasPrefix(u.Obj().Name(), "region:") {
			if r := strings.TrimPrefix(u.Obj().Name(), "region:"); r != "" {
				return "[]" + elemKey(sl.Elem()) + "@" + r
			}
			return "[]" + elemKey(sl.Elem())
		}
		if ar, ok := u.Underlying().(*types.Array); ok {
			return "[]" + elemKey(ar.Elem()) // an array object: same leaf as slice backing arrays
		}
		return rootKey(u.Underlying())
	case *types.Alias:
		return rootKey(types.Unalias(t))
	case *types.Struct:
		return "struct:" + typeKey(t)
	case *types.Array:
		return "[]" + elemKey(u.Elem())
	case *types.Slice:
		return "cell:[]" + elemKey(u.Elem()) // a variable of slice type, not a backing array
	}
	return "cell:" + typeKey(t.Underlying())
}

func elemKey(t types.Type) string {
	t = types.Unalias(t)
	if n, ok := t.(*types.Named); ok {
		if _, ok := n.Underlying().(*types.Struct); ok {
			return typeKey(t)
		}
	}
	return typeKey(t.Underlying())
}

// LeafInfo describes one heap leaf (an SMT array from Int refs).
type LeafInfo struct {
	Key   string
	NIdx  int    // number of BV64 index levels below the ref
	Sort  string // scalar sort at the bottom
	Ghost bool
}

func (l *LeafInfo) ArraySort() string {
	s := l.Sort
	for i := 0; i < l.NIdx; i++ {
		s = "(Array (_ BitVec 64) " + s + ")"
	}
	return "(Array Int " + s + ")"
}

func (l *LeafInfo) InnerSort(depth int) string {
	s := l.Sort
	for i := 0; i < l.NIdx-depth; i++ {
		s = "(Array (_ BitVec 64) " + s + ")"
	}
	return s
}

// isArrayRoot reports whether objects of this root type are indexable.
func isArrayRoot(t types.Type) (types.Type, bool) {
	switch u := types.Unalias(t).(type) {
	case *types.Array:
		return u.Elem(), true
	case *types.Named:
		switch uu := u.Underlying().(type) {
		case *types.Array:
			return uu.Elem(), true
		case *types.Slice:
			if strings.HasPrefix(u.Obj().Name(), "region:") {
				return uu.Elem(), true
			}
		}
	}
	return nil, false
}

func structOf(t types.Type) (*types.Struct, bool) {
	s, ok := t.Underlying().(*types.Struct)
	return s, ok
}

// typeAtPath walks root/path and returns the static type found there plus
// the leaf-key prefix and index terms.
func typeAtPath(root types.Type, path []Step) (types.Type, string, []string, error) {
	key := rootKey(root)
	var idx []string
	cur := root
	first := true
	for _, st := range path {
		if st.Field == "" {
			el, ok := isArrayRoot(cur)
			if !ok {
				return nil, "", nil, fmt.Errorf("index step into non-array %s", typeKey(cur))
			}
			if !first {
				key += "[]"
			}
			idx = append(idx, st.Idx)
			cur = el
		} else {
			if strings.HasPrefix(st.Field, "$") {
				gt, ok := ghostFieldTypes[rootKey(cur)+"."+st.Field[1:]]
				if !ok {
					return nil, "", nil, fmt.Errorf("no ghost field %s in %s", st.Field, typeKey(cur))
				}
				cur = gt
				key += "." + st.Field
				first = false
				continue
			}
			s, ok := structOf(cur)
			if !ok {
				return nil, "", nil, fmt.Errorf("field step %s into non-struct %s", st.Field, typeKey(cur))
			}
			found := false
			for i := 0; i < s.NumFields(); i++ {
				if s.Field(i).Name() == st.Field {
					cur = s.Field(i).Type()
					found = true
					break
				}
			}
			if !found {
				return nil, "", nil, fmt.Errorf("no field %s in %s", st.Field, typeKey(cur))
			}
			key += "." + st.Field
		}
		first = false
	}
	return cur, key, idx, nil
}

func sanitize(s string) string {
	var b strings.Builder
	for _, c := range s {
		switch {
		case c >= 'a' && c <= 'z', c >= 'A' && c <= 'Z', c >= '0' && c <= '9', c == '_', c == '.', c == '$', c == '!':
			b.WriteRune(c)
		case c == '*':
			b.WriteString("ptr_")
		case c == '[' || c == ']':
			b.WriteString("_")
		default:
			b.WriteString("_")
		}
	}
	return b.String()
}

// ---------- state ----------

type State struct {
	Reach    string
	Heap     map[string]string // leaf key -> term
	Epoch    int
	Frontier string // Int term: all live refs <= Frontier
}

func (s *State) clone() *State {
	n := &State{Reach: s.Reach, Heap: make(map[string]string, len(s.Heap)), Epoch: s.Epoch, Frontier: s.Frontier}
	for k, v := range s.Heap {
		n.Heap[k] = v
	}
	return n
}

func sortedKeys(m map[string]string) []string {
	ks := make([]string, 0, len(m))
	for k := range m {
		ks = append(ks, k)
	}
	sort.Strings(ks)
	return ks
}

func and(ts ...string) string {
	var xs []string
	for _, t := range ts {
		if t == "true" || t == "" {
			continue
		}
		if t == "false" {
			return "false"
		}
		xs = append(xs, t)
	}
	if len(xs) == 0 {
		return "true"
	}
	if len(xs) == 1 {
		return xs[0]
	}
	return "(and " + strings.Join(xs, " ") + ")"
}

func or(ts ...string) string {
	var xs []string
	for _, t := range ts {
		if t == "false" || t == "" {
			continue
		}
		if t == "true" {
			return "true"
		}
		xs = append(xs, t)
	}
	if len(xs) == 0 {
		return "false"
	}
	if len(xs) == 1 {
		return xs[0]
	}
	return "(or " + strings.Join(xs, " ") + ")"
}

func not(t string) string {
	if t == "true" {
		return "false"
	}
	if t == "false" {
		return "true"
	}
	if strings.HasPrefix(t, "(not ") && balanced(t[5:len(t)-1]) {
		return t[5 : len(t)-1]
	}
	return "(not " + t + ")"
}

func balanced(s string) bool {
	d := 0
	for _, c := range s {
		if c == '(' {
			d++
		} else if c == ')' {
			d--
			if d < 0 {
				return false
			}
		}
	}
	return d == 0
}

func implies(a, b string) string {
	if a == "true" {
		return b
	}
	if b == "true" || a == "false" {
		return "true"
	}
	return "(=> " + a + " " + b + ")"
}

func ite(c, a, b string) string {
	if a == b {
		return a
	}
	if c == "true" {
		return a
	}
	if c == "false" {
		return b
	}
	return "(ite " + c + " " + a + " " + b + ")"
}

func isLit(a string) bool {
	if strings.HasPrefix(a, "#x") || strings.HasPrefix(a, "#b") {
		return true
	}
	if a == "" {
		return false
	}
	for _, c := range a {
		if c < '0' || c > '9' {
			return false
		}
	}
	return true
}

func eq(a, b string) string {
	if a == b {
		return "true"
	}
	if isLit(a) && isLit(b) {
		return "false"
	}
	return "(= " + a + " " + b + ")"
}
