package main

// Evaluation of contract expressions in a symbolic state.

import (
	"fmt"
	"go/constant"
	"go/token"
	"go/types"
	"math/big"
	"strconv"
	"strings"

	"golang.org/x/tools/go/ssa"
)

type Env struct {
	x           *Exec
	fr          *Frame
	st          *State
	old         *State
	at          *ssa.BasicBlock
	vars        map[string]Value
	pkg         *types.Package
	frontierPre string
	noLocals    bool
	depth       int
	loopOld     *State           // heap at the entry of the loop whose clause is being evaluated (loopentry(e))
	loopVars    map[string]Value // entry values of that loop's header variables
	iterOld     *State           // heap at the start of the current iteration (iterstart(e), step clauses)
	iterVars    map[string]Value
}

func (x *Exec) newEnv(fr *Frame, st *State, at *ssa.BasicBlock) *Env {
	e := &Env{x: x, fr: fr, st: st, old: x.entry, at: at, vars: map[string]Value{}, frontierPre: x.F0}
	if fr != nil {
		e.pkg = fr.fn.Pkg.Pkg
		if fr.preSt != nil {
			e.old = fr.preSt
		}
	}
	return e
}

func (e *Env) lookupVar(name string) (Value, bool) {
	if v, ok := e.vars[name]; ok {
		return v, true
	}
	if e.noLocals || e.fr == nil {
		return nil, false
	}
	fr := e.fr
	// a contract with an explicit parameter list binds its names by position,
	// so renaming a parameter in the code does not invalidate the contract
	if fr.spec != nil && len(fr.spec.Params) == len(fr.fn.Params) {
		for i, n := range fr.spec.Params {
			if n == name {
				if v, ok := fr.vals[fr.fn.Params[i]]; ok {
					return v, true
				}
			}
		}
	}
	for i, p := range fr.fn.Params {
		if p.Name() == name {
			if v, ok := fr.vals[p]; ok {
				return v, true
			}
			_ = i
		}
	}
	for i, fv := range fr.fn.FreeVars {
		if fv.Name() == name && i < len(fr.free) {
			// free variables are addresses of the captured variable
			if p, ok := fr.free[i].(Ptr); ok {
				if _, isPtr := fv.Type().(*types.Pointer); isPtr {
					return e.x.load(e.st, p), true
				}
			}
			return fr.free[i], true
		}
	}
	// address-taken local (Alloc cell)
	if as, ok := fr.names["&"+name]; ok {
		for k := len(as) - 1; k >= 0; k-- {
			if v, ok := fr.vals[as[k]]; ok {
				return e.x.load(e.st, v.(Ptr)), true
			}
		}
	}
	// register local: the value bound by the reference (definition or use: go/ssa records both) that
	// most closely dominates the evaluation point. The position that counts is the reference's, not the
	// one where the value was computed: `finalOff = off` binds the name finalOff to the value of off
	// from that statement on, not from the loop header where off's phi lives (session 4: the invariant
	// `finalOff == 0` of dir.AddNameDir had silently been read as `off == 0`).
	{
		// candidates: references (value valid from the reference on) and merge points of the variable
		// (value valid from the start of the join block on)
		var best ssa.Value
		var bblk *ssa.BasicBlock
		bidx := -1
		consider := func(v ssa.Value, blk *ssa.BasicBlock, idx int) {
			if _, isConst := v.(*ssa.Const); !isConst {
				if _, computed := fr.vals[v]; !computed {
					return
				}
			}
			if e.at != nil && !blk.Dominates(e.at) {
				return
			}
			if best == nil || (bblk != blk && bblk.Dominates(blk)) || (bblk == blk && idx > bidx) {
				best, bblk, bidx = v, blk, idx
			}
		}
		for _, d := range fr.refs[name] {
			consider(d.X, d.Block(), instrIndex(d))
		}
		for _, ph := range fr.phis[name] {
			consider(ph, ph.Block(), instrIndex(ph))
		}
		if best != nil {
			return e.x.value(fr, best), true
		}
	}
	return nil, false
}

func instrIndex(in ssa.Instruction) int {
	for i, x := range in.Block().Instrs {
		if x == in {
			return i
		}
	}
	return -1
}

// evalBoolAlt evaluates e twice: with opaque predicates applied, and with
// their bodies expanded (equivalent by the defining axioms).
func (x *Exec) evalBoolAlt(env *Env, e *Expr) (string, string) {
	before := x.predApps
	p := x.evalBool(env, e)
	if x.predApps == before {
		return p, "" // no opaque predicate involved
	}
	x.expandPreds = true
	alt := x.evalBool(env, e)
	x.expandPreds = false
	if alt == p {
		alt = ""
	}
	return p, alt
}

func (x *Exec) evalBool(env *Env, e *Expr) string {
	v := x.evalExpr(env, e)
	s, ok := v.(Scalar)
	if !ok || !isBool(s.Typ) {
		x.fail("contract expression %s is not boolean (%T)", e, v)
	}
	return s.T
}

var boolT = types.Typ[types.Bool]
var u64T = types.Typ[types.Uint64]

func (x *Exec) evalExpr(env *Env, e *Expr) Value {
	switch e.Kind {
	case "paren":
		return x.evalExpr(env, e.X)
	case "lit":
		n := new(big.Int)
		if _, ok := n.SetString(e.Name, 0); !ok {
			x.fail("bad literal %s", e.Name)
		}
		return UntypedInt{N: n.String()}
	case "str":
		return Scalar{T: x.strLit(e.Name), Typ: types.Typ[types.String]}
	case "ident":
		return x.evalIdent(env, e)
	case "sel":
		return x.evalSel(env, e)
	case "index":
		return x.evalIndex(env, e)
	case "star":
		p := x.asPtr(x.evalExpr(env, e.X))
		return x.load(env.st, p)
	case "unary":
		v := x.evalExpr(env, e.X)
		switch e.Op {
		case "!":
			return Scalar{T: not(x.term(v)), Typ: boolT}
		case "-":
			if u, ok := v.(UntypedInt); ok {
				n, _ := new(big.Int).SetString(u.N, 10)
				return UntypedInt{N: n.Neg(n).String()}
			}
			return Scalar{T: "(bvneg " + x.term(v) + ")", Typ: v.(Scalar).Typ}
		case "^":
			return Scalar{T: "(bvnot " + x.term(v) + ")", Typ: v.(Scalar).Typ}
		}
	case "binary":
		return x.evalBinary(env, e)
	case "quant":
		return x.evalQuant(env, e)
	case "call":
		return x.evalCall(env, e)
	case "slice":
		v := x.evalExpr(env, e.X)
		s, ok := v.(SliceV)
		if !ok {
			x.fail("slice expression on %T", v)
		}
		lo, hi := bvLit(0, 64), s.Len
		if e.Args[0] != nil {
			lo = x.term(x.typed(x.evalExpr(env, e.Args[0]), u64T))
		}
		if e.Args[1] != nil {
			hi = x.term(x.typed(x.evalExpr(env, e.Args[1]), u64T))
		}
		return SliceV{Base: s.Base, Off: bvadd(s.Off, lo), Len: bvsub(hi, lo), Cap: bvsub(s.Cap, lo), Elem: s.Elem, Region: s.Region, New: s.New, Owner: s.Owner}
	}
	x.fail("cannot evaluate %s (%s)", e, e.Kind)
	return nil
}

// typed gives an untyped constant the type t.
func (x *Exec) typed(v Value, t types.Type) Value {
	u, ok := v.(UntypedInt)
	if !ok {
		return v
	}
	w, _, ok := bvWidth(t)
	if !ok && sortOf(t) == "Int" {
		if _, isPtr := t.Underlying().(*types.Pointer); !isPtr {
			return Scalar{T: u.N, Typ: t}
		}
	}
	if !ok {
		if _, isPtr := t.Underlying().(*types.Pointer); isPtr && u.N == "0" {
			return Ptr{Base: "0", Root: t.Underlying().(*types.Pointer).Elem()}
		}
		x.fail("untyped constant used as %s", typeKey(t))
	}
	n, _ := new(big.Int).SetString(u.N, 10)
	if n.Sign() < 0 {
		n.Add(n, new(big.Int).Lsh(big.NewInt(1), uint(w)))
	}
	if n.BitLen() > w {
		x.fail("constant %s overflows %s", u.N, typeKey(t))
	}
	return Scalar{T: bvLit(n.Uint64(), w), Typ: t}
}

func (x *Exec) evalIdent(env *Env, e *Expr) Value {
	switch e.Name {
	case "true":
		return Scalar{T: "true", Typ: boolT}
	case "false":
		return Scalar{T: "false", Typ: boolT}
	case "nil":
		return Scalar{T: "nil", Typ: types.Typ[types.UntypedNil]}
	case "empty":
		return Scalar{T: "$empty", Typ: types.Typ[types.UntypedNil]}
	}
	if v, ok := env.lookupVar(e.Name); ok {
		return v
	}
	if g, ok := x.P.specs.Ghosts[e.Name]; ok && !g.Field {
		l := x.ghostLeaf(e.Name)
		gt := x.P.ghostType(g.Type)
		t := "(select " + x.heapGet(env.st, l) + " 1)"
		if gt.Key == nil {
			return Scalar{T: t, Typ: gt.Base}
		}
		return GhostArr{T: t, Sort: gt.Sort(), Typ: gt}
	}
	// package-level constant
	if env.pkg != nil {
		if obj := env.pkg.Scope().Lookup(e.Name); obj != nil {
			if v, ok := x.objValue(env, obj); ok {
				return v
			}
		}
	}
	x.fail("unknown identifier %s in contract", e.Name)
	return nil
}

func (x *Exec) objValue(env *Env, obj types.Object) (Value, bool) {
	switch o := obj.(type) {
	case *types.Const:
		switch o.Val().Kind() {
		case constant.Int:
			if _, _, ok := bvWidth(o.Type()); ok {
				if b, ok := o.Type().Underlying().(*types.Basic); ok && b.Info()&types.IsUntyped != 0 {
					return UntypedInt{N: o.Val().ExactString()}, true
				}
				return x.typed(UntypedInt{N: o.Val().ExactString()}, o.Type()), true
			}
		case constant.Bool:
			if constant.BoolVal(o.Val()) {
				return Scalar{T: "true", Typ: boolT}, true
			}
			return Scalar{T: "false", Typ: boolT}, true
		case constant.String:
			return Scalar{T: x.strLit(constant.StringVal(o.Val())), Typ: o.Type()}, true
		}
	case *types.Var:
		// package-level variable
		if pkg := x.P.ssaProg.Package(o.Pkg()); pkg != nil {
			if g, ok := pkg.Members[o.Name()].(*ssa.Global); ok {
				p := Ptr{Base: "1", Root: globalRoot{g}.typ(), Path: []Step{{Field: "v"}}, Fresh: true}
				return x.load(env.st, p), true
			}
		}
	}
	return nil, false
}

func (x *Exec) evalSel(env *Env, e *Expr) Value {
	// package-qualified name?
	if e.X.Kind == "ident" {
		if _, isVar := env.lookupVar(e.X.Name); !isVar {
			if _, isGhost := x.P.specs.Ghosts[e.X.Name]; !isGhost {
				if pkg := x.P.pkgByName[e.X.Name]; pkg != nil {
					if obj := pkg.Scope().Lookup(e.Name); obj != nil {
						if v, ok := x.objValue(env, obj); ok {
							return v
						}
					}
					x.fail("cannot use %s.%s in a contract", e.X.Name, e.Name)
				}
			}
		}
	}
	base := x.evalExpr(env, e.X)
	switch b := base.(type) {
	case Ptr:
		// ghost field?
		if len(b.Path) == 0 {
			gk := rootKey(b.Root) + "." + e.Name
			if g, ok := x.P.specs.Ghosts[gk]; ok && g.Field {
				gt := x.P.ghostType(g.Type)
				l := x.leaf(rootKey(b.Root)+".$"+e.Name, 0, gt.Sort())
				l.Ghost = true
				t := "(select " + x.heapGet(env.st, l) + " " + b.Base + ")"
				if gt.Key == nil {
					return Scalar{T: t, Typ: gt.Base}
				}
				return GhostArr{T: t, Sort: gt.Sort(), Typ: gt}
			}
		}
		np := Ptr{Base: b.Base, Root: b.Root}
		np.Path = append(append([]Step{}, b.Path...), Step{Field: e.Name})
		if _, _, _, err := typeAtPath(np.Root, np.Path); err != nil {
			x.fail("contract: %v", err)
		}
		return x.load(env.st, np)
	case Record:
		s, _ := structOf(b.Typ)
		for i := 0; i < s.NumFields(); i++ {
			if s.Field(i).Name() == e.Name {
				return b.Fields[i]
			}
		}
		x.fail("no field %s in %s", e.Name, typeKey(b.Typ))
	case Iface:
		if e.Name == "tag" {
			return Scalar{T: b.Tag, Typ: types.Typ[types.UnsafePointer]}
		}
	}
	x.fail("field selection %s on %T", e, base)
	return nil
}

// evalLValue evaluates an expression to a location.
func (x *Exec) evalLValue(env *Env, e *Expr) Ptr {
	switch e.Kind {
	case "paren":
		return x.evalLValue(env, e.X)
	case "star":
		return x.asPtr(x.evalExpr(env, e.X))
	case "sel":
		var b Value
		if e.X.Kind == "sel" || e.X.Kind == "index" {
			// prefer staying an lvalue if the prefix denotes a struct value inside an object
			defer func() {}()
		}
		b = x.evalExprOrLValue(env, e.X)
		if p, ok := b.(Ptr); ok {
			if len(p.Path) == 0 {
				gk := rootKey(p.Root) + "." + e.Name
				if g, ok := x.P.specs.Ghosts[gk]; ok && g.Field {
					// represent ghost field location with a synthetic field step
					return Ptr{Base: p.Base, Root: p.Root, Path: []Step{{Field: "$" + e.Name}}}
				}
			}
			np := Ptr{Base: p.Base, Root: p.Root}
			np.Path = append(append([]Step{}, p.Path...), Step{Field: e.Name})
			return np
		}
	case "index":
		b := x.evalExpr(env, e.X)
		if s, ok := b.(SliceV); ok {
			i := x.term(x.typed(x.evalExpr(env, e.Y), u64T))
			return Ptr{Base: x.regionOf(s).eb(), Root: x.regionOf(s).root(), Path: []Step{{Idx: elemAt(s.Off, i)}}}
		}
	case "ident":
		if v, ok := env.lookupVar(e.Name); ok {
			if p, ok := v.(Ptr); ok {
				return p
			}
		}
	}
	x.fail("not a location: %s", e)
	return Ptr{}
}

// evalExprOrLValue evaluates e; if e denotes an embedded struct inside an
// object it returns the interior pointer instead of loading the struct.
func (x *Exec) evalExprOrLValue(env *Env, e *Expr) Value {
	if e.Kind == "sel" {
		b := x.evalExprOrLValue(env, e.X)
		if p, ok := b.(Ptr); ok {
			np := Ptr{Base: p.Base, Root: p.Root}
			np.Path = append(append([]Step{}, p.Path...), Step{Field: e.Name})
			t, _, _, err := typeAtPath(np.Root, np.Path)
			if err == nil {
				if _, isStruct := t.Underlying().(*types.Struct); isStruct {
					return np
				}
				return x.load(env.st, np)
			}
		}
	}
	return x.evalExpr(env, e)
}

func (x *Exec) evalIndex(env *Env, e *Expr) Value {
	base := x.evalExpr(env, e.X)
	switch b := base.(type) {
	case SliceV:
		i := x.term(x.typed(x.evalExpr(env, e.Y), u64T))
		return x.load(env.st, Ptr{Base: x.regionOf(b).eb(), Root: x.regionOf(b).root(), Path: []Step{{Idx: elemAt(b.Off, i)}}})
	case GhostArr:
		k := x.evalExpr(env, e.Y)
		if b.Typ.Key.Key == nil {
			k = x.typed(k, b.Typ.Key.Base)
		}
		t := "(select " + b.T + " " + x.term(k) + ")"
		if b.Typ.Val.Key == nil {
			return Scalar{T: t, Typ: b.Typ.Val.Base}
		}
		return GhostArr{T: t, Sort: b.Typ.Val.Sort(), Typ: b.Typ.Val}
	case Scalar:
		if isString(b.Typ) {
			i := x.term(x.typed(x.evalExpr(env, e.Y), u64T))
			return Scalar{T: "(select (sarr " + b.T + ") " + i + ")", Typ: types.Typ[types.Uint8]}
		}
		if mt, ok := b.Typ.Underlying().(*types.Map); ok {
			k := x.term(x.typed(x.evalExpr(env, e.Y), mt.Key()))
			return x.mapLoadVal(env.st, mt, b.T, k, mt.Elem(), "")
		}
	case ArrayV:
		// small array value: a constant index picks the element, a symbolic one an ite chain
		iv := x.evalExpr(env, e.Y)
		if u, ok := iv.(UntypedInt); ok {
			if n, err := strconv.Atoi(u.N); err == nil && n >= 0 && n < len(b.Elems) {
				return b.Elems[n]
			}
		}
		i := x.term(x.typed(iv, u64T))
		if len(b.Elems) > 0 {
			if _, ok := b.Elems[0].(Scalar); ok {
				r := b.Elems[len(b.Elems)-1].(Scalar)
				t := r.T
				for k := len(b.Elems) - 2; k >= 0; k-- {
					t = "(ite (= " + i + " " + bvLit(uint64(k), 64) + ") " + b.Elems[k].(Scalar).T + " " + t + ")"
				}
				return Scalar{T: t, Typ: r.Typ}
			}
		}
	case Ptr:
		if at, ok := b.elemType(x).Underlying().(*types.Array); ok {
			_ = at
			i := x.term(x.typed(x.evalExpr(env, e.Y), u64T))
			np := Ptr{Base: b.Base, Root: b.Root}
			np.Path = append(append([]Step{}, b.Path...), Step{Idx: i})
			return x.load(env.st, np)
		}
	}
	x.fail("index expression %s on %T", e, base)
	return nil
}

func (x *Exec) evalBinary(env *Env, e *Expr) Value {
	switch e.Op {
	case "&&":
		return Scalar{T: and(x.evalBool(env, e.X), x.evalBool(env, e.Y)), Typ: boolT}
	case "||":
		return Scalar{T: or(x.evalBool(env, e.X), x.evalBool(env, e.Y)), Typ: boolT}
	case "==>":
		return Scalar{T: implies(x.evalBool(env, e.X), x.evalBool(env, e.Y)), Typ: boolT}
	case "<==>":
		return Scalar{T: eq(x.evalBool(env, e.X), x.evalBool(env, e.Y)), Typ: boolT}
	}
	a := x.evalExpr(env, e.X)
	b := x.evalExpr(env, e.Y)
	ua, aUn := a.(UntypedInt)
	ub, bUn := b.(UntypedInt)
	if aUn && bUn {
		na, _ := new(big.Int).SetString(ua.N, 10)
		nb, _ := new(big.Int).SetString(ub.N, 10)
		r := new(big.Int)
		switch e.Op {
		case "+":
			r.Add(na, nb)
		case "-":
			r.Sub(na, nb)
		case "*":
			r.Mul(na, nb)
		case "/":
			r.Quo(na, nb)
		case "%":
			r.Rem(na, nb)
		case "<<":
			r.Lsh(na, uint(nb.Uint64()))
		case ">>":
			r.Rsh(na, uint(nb.Uint64()))
		case "==", "!=", "<", "<=", ">", ">=":
			c := na.Cmp(nb)
			res := map[string]bool{"==": c == 0, "!=": c != 0, "<": c < 0, "<=": c <= 0, ">": c > 0, ">=": c >= 0}[e.Op]
			return Scalar{T: strconv.FormatBool(res), Typ: boolT}
		default:
			x.fail("constant op %s", e.Op)
		}
		return UntypedInt{N: r.String()}
	}
	isShift := e.Op == "<<" || e.Op == ">>"
	if aUn && !isShift {
		a = x.typed(a, valueType(b))
	}
	if bUn {
		if isShift {
			b = x.typed(b, u64T)
		} else {
			b = x.typed(b, valueType(a))
		}
	}
	if aUn && isShift {
		a = x.typed(a, u64T)
	}
	tok := map[string]token.Token{"+": token.ADD, "-": token.SUB, "*": token.MUL, "/": token.QUO, "%": token.REM,
		"&": token.AND, "|": token.OR, "^": token.XOR, "&^": token.AND_NOT, "<<": token.SHL, ">>": token.SHR,
		"==": token.EQL, "!=": token.NEQ, "<": token.LSS, "<=": token.LEQ, ">": token.GTR, ">=": token.GEQ}[e.Op]
	x.pure++
	defer func() { x.pure-- }()
	return x.binop(env.fr, env.st, tok, a, b, valueType(a), token.NoPos)
}

func valueType(v Value) types.Type {
	switch s := v.(type) {
	case Scalar:
		return s.Typ
	case Ptr:
		return types.NewPointer(s.Root)
	case Record:
		return s.Typ
	case SliceV:
		return types.NewSlice(s.Elem)
	case Iface:
		return s.Typ
	case FuncV:
		return s.Typ
	}
	return types.Typ[types.Invalid]
}

func (x *Exec) evalQuant(env *Env, e *Expr) Value {
	sub := *env
	sub.vars = map[string]Value{}
	for k, v := range env.vars {
		sub.vars[k] = v
	}
	var binders []string
	for _, qv := range e.Vars {
		t := x.P.resolveType(env.pkg, qv.Type)
		name := x.em.fresh("q_" + qv.Name)
		binders = append(binders, "("+name+" "+sortOf(t)+")")
		if pt, ok := t.Underlying().(*types.Pointer); ok {
			sub.vars[qv.Name] = Ptr{Base: name, Root: pt.Elem()}
		} else {
			sub.vars[qv.Name] = Scalar{T: name, Typ: t}
		}
	}
	x.em.inQuant++
	body := x.evalBool(&sub, e.X)
	x.em.inQuant--
	return Scalar{T: "(" + e.Op + " (" + strings.Join(binders, " ") + ") " + body + ")", Typ: boolT}
}

func (x *Exec) evalCall(env *Env, e *Expr) Value {
	// builtins and conversions
	if e.X.Kind == "ident" {
		switch e.X.Name {
		case "old":
			if env.old == nil {
				x.fail("old() outside a postcondition")
			}
			sub := *env
			sub.st = env.old
			return x.evalExpr(&sub, e.Args[0])
		case "fieldptr":
			// fieldptr(p, "f"): the address of field f of the struct p points to (&p.f)
			if len(e.Args) != 2 || e.Args[1].Kind != "str" {
				x.fail("fieldptr needs a pointer and a field name")
			}
			pv, ok := x.evalExpr(env, e.Args[0]).(Ptr)
			if !ok {
				x.fail("fieldptr of a non-pointer")
			}
			np := Ptr{Base: pv.Base, Root: pv.Root, Fresh: pv.Fresh, New: pv.New}
			np.Path = append(append([]Step{}, pv.Path...), Step{Field: e.Args[1].Name})
			return np
		case "callresult":
			// callresult("callee@k", i): the i-th result of the k-th call of callee in this function; only
			// meaningful on paths through that call (guard the clause with the condition of that path)
			if len(e.Args) < 1 || e.Args[0].Kind != "str" {
				x.fail("callresult needs a string literal")
			}
			rv, ok := x.siteRes[e.Args[0].Name]
			if !ok || rv == nil {
				x.fail("callresult: no call %s has been executed on the way here", e.Args[0].Name)
			}
			if len(e.Args) == 2 {
				ix, ok1 := e.Args[1].Kind, true
				_ = ix
				n, err := strconv.Atoi(e.Args[1].Name)
				if tv, ok2 := rv.(Tuple); ok1 && ok2 && err == nil && n < len(tv.Vals) {
					return tv.Vals[n]
				}
				x.fail("callresult: bad result index")
			}
			return rv
		case "aftercall":
			// aftercall("callee@k", e): e in the heap right after the k-th call of callee in this function
			if len(e.Args) != 2 || e.Args[0].Kind != "str" {
				x.fail("aftercall needs a string literal and an expression")
			}
			o := x.sitePost[e.Args[0].Name]
			if o == nil {
				x.fail("aftercall: no call %s has been executed on the way here", e.Args[0].Name)
			}
			sub := *env
			sub.st = o
			return x.evalExpr(&sub, e.Args[1])
		case "loopentry", "iterstart":
			// the expression evaluated in the heap (and with the header variables) of
			// the loop's entry / of the start of the current iteration
			o, vs := env.loopOld, env.loopVars
			if e.X.Name == "iterstart" {
				o, vs = env.iterOld, env.iterVars
			}
			if o == nil {
				x.fail("%s() outside a loop clause that supports it", e.X.Name)
			}
			sub := *env
			sub.st = o
			sub.vars = map[string]Value{}
			for k, v := range env.vars {
				sub.vars[k] = v
			}
			for k, v := range vs {
				sub.vars[k] = v
			}
			return x.evalExpr(&sub, e.Args[0])
		case "len", "cap":
			v := x.evalExpr(env, e.Args[0])
			switch s := v.(type) {
			case SliceV:
				if e.X.Name == "len" {
					return Scalar{T: s.Len, Typ: u64T}
				}
				return Scalar{T: s.Cap, Typ: u64T}
			case Scalar:
				if isString(s.Typ) {
					return Scalar{T: "(slen " + s.T + ")", Typ: u64T}
				}
			}
			x.fail("len of %T", v)
		case "fresh":
			v := x.evalExpr(env, e.Args[0])
			var b string
			switch s := v.(type) {
			case Ptr:
				b = s.Base
			case SliceV:
				b = s.Base
			case Scalar:
				b = s.T
			default:
				x.fail("fresh(%T)", v)
			}
			return Scalar{T: "(> " + b + " " + env.frontierPre + ")", Typ: boolT}
		case "allocated":
			// allocated(p): p existed in the pre-state
			v := x.evalExpr(env, e.Args[0])
			return Scalar{T: "(<= " + x.term(v) + " " + env.frontierPre + ")", Typ: boolT}
		case "store":
			a := x.evalExpr(env, e.Args[0]).(GhostArr)
			k := x.evalExpr(env, e.Args[1])
			v := x.evalExpr(env, e.Args[2])
			if a.Typ.Key.Key == nil {
				k = x.typed(k, a.Typ.Key.Base)
			}
			if a.Typ.Val.Key == nil {
				v = x.typed(v, a.Typ.Val.Base)
			}
			return GhostArr{T: "(store " + a.T + " " + x.term(k) + " " + x.term(v) + ")", Sort: a.Sort, Typ: a.Typ}
		case "ite":
			c := x.evalBool(env, e.Args[0])
			a := x.evalExpr(env, e.Args[1])
			b := x.evalExpr(env, e.Args[2])
			_, au := a.(UntypedInt)
			_, bu := b.(UntypedInt)
			if au && bu {
				a, b = x.typed(a, u64T), x.typed(b, u64T)
			} else if au {
				a = x.typed(a, valueType(b))
			} else if bu {
				b = x.typed(b, valueType(a))
			}
			return x.iteValue(c, a, b)
		case "elems":
			// elems(s): the backing array of byte slice s shifted to index 0 is not
			// expressible without lambdas; elems(s) is the raw inner array (off must be 0)
			s := x.evalExpr(env, e.Args[0]).(SliceV)
			var leaves [][2]string
			x.elemLeaves(s.Elem, x.regionOf(s).key(), &leaves)
			if len(leaves) != 1 {
				x.fail("elems() of struct slice")
			}
			l := x.leaf(leaves[0][0], 1, leaves[0][1])
			gt := &GhostType{Key: &GhostType{Base: u64T}, Val: &GhostType{Base: s.Elem}}
			return GhostArr{T: "(select " + x.heapGet(env.st, l) + " " + x.regionOf(s).eb() + ")", Sort: gt.Sort(), Typ: gt}
		case "off":
			s := x.evalExpr(env, e.Args[0]).(SliceV)
			return Scalar{T: s.Off, Typ: u64T}
		case "base":
			switch s := x.evalExpr(env, e.Args[0]).(type) {
			case SliceV:
				return Scalar{T: s.Base, Typ: types.Typ[types.UnsafePointer]}
			case Ptr:
				return Scalar{T: s.Base, Typ: types.Typ[types.UnsafePointer]}
			}
		case "methodvalue":
			// methodvalue("Type.Method"): the function value x.Method for an x of type (*)Type
			if len(e.Args) == 1 && e.Args[0].Kind == "str" {
				return FuncV{Name: x.fnID(e.Args[0].Name)}
			}
			x.fail("methodvalue needs a string literal")
		case "dyn":
			// dyn(x): the value stored in interface x (known only when x was just built from it)
			v := x.evalExpr(env, e.Args[0])
			if ifc, ok := v.(Iface); ok && ifc.Dyn != nil {
				return ifc.Dyn
			}
			x.fail("dyn(): dynamic value of the interface is not known here")
		case "istype":
			// istype(x, T): the dynamic type of interface value x is T
			v := x.evalExpr(env, e.Args[0])
			ifc, ok := v.(Iface)
			if !ok {
				x.fail("istype of %T", v)
			}
			t := x.P.resolveType(env.pkg, e.Args[1])
			return Scalar{T: eq(ifc.Tag, x.typeTag(t)), Typ: boolT}
		case "ifaceptr":
			// ifaceptr(x, T): the *T stored in interface value x
			v := x.evalExpr(env, e.Args[0])
			ifc, ok := v.(Iface)
			if !ok {
				x.fail("ifaceptr of %T", v)
			}
			t := x.P.resolveType(env.pkg, e.Args[1])
			return Ptr{Base: ifc.Ref, Root: t}
		case "indom":
			m := x.evalExpr(env, e.Args[0]).(Scalar)
			mt := m.Typ.Underlying().(*types.Map)
			k := x.term(x.typed(x.evalExpr(env, e.Args[1]), mt.Key()))
			return Scalar{T: "(select (select " + x.heapGet(env.st, x.mapDomLeaf(mt)) + " " + m.T + ") " + k + ")", Typ: boolT}
		}
		if sf, ok := x.P.specs.SpecFuncs[e.X.Name]; ok {
			return x.evalSpecFunc(env, sf, e)
		}
	}
	// type conversion?
	if t, ok := x.P.tryResolveType(env.pkg, e.X); ok && len(e.Args) == 1 {
		v := x.evalExpr(env, e.Args[0])
		if u, ok := v.(UntypedInt); ok {
			return x.typed(u, t)
		}
		return x.convert(env.fr, env.st, v, valueType(v), t)
	}
	// pure call of a Go function / method
	return x.evalGoCall(env, e)
}

func (x *Exec) evalSpecFunc(env *Env, sf *SpecFunc, e *Expr) Value {
	if len(e.Args) != len(sf.Params) {
		x.fail("specfunc %s: %d args, want %d", sf.Name, len(e.Args), len(sf.Params))
	}
	if env.depth > 20 {
		x.fail("specfunc recursion too deep at %s", sf.Name)
	}
	sub := *env
	sub.depth++
	sub.vars = map[string]Value{}
	sub.noLocals = true
	if sf.Pkg != "" {
		if p := x.P.pkgByName[sf.Pkg]; p != nil {
			sub.pkg = p
		}
	}
	var actuals []Value
	var ptypes []types.Type
	for i, p := range sf.Params {
		v := x.evalExpr(env, e.Args[i])
		t := x.P.resolveType(sub.pkg, p.Type)
		if _, ok := v.(UntypedInt); ok {
			v = x.typed(v, t)
		}
		sub.vars[p.Name] = v
		actuals = append(actuals, v)
		ptypes = append(ptypes, t)
	}
	if sf.Lazy {
		// one-level unfolding, only where a goal is being expanded
		if x.expandPreds && x.em.inQuant == 0 && x.lazyDepth == 0 {
			x.lazyDepth++
			v := x.evalExpr(&sub, sf.Body)
			x.lazyDepth--
			return v
		}
		return x.applyPredicate(&sub, sf, actuals, ptypes)
	}
	if sf.Opaque && (!x.expandPreds || x.em.inQuant > 0) {
		return x.applyPredicate(&sub, sf, actuals, ptypes)
	}
	return x.evalExpr(&sub, sf.Body)
}

type predDef struct {
	fn     string
	leaves []string
	typ    types.Type // result type (bool for predicates)
}

// flatten lists the SMT terms (and sorts) that make up a value.
func (x *Exec) flatten(v Value, terms *[]string, sorts *[]string) {
	switch s := v.(type) {
	case Scalar:
		*terms = append(*terms, x.term(s))
		*sorts = append(*sorts, sortOf(s.Typ))
	case Ptr:
		*terms = append(*terms, x.term(s))
		*sorts = append(*sorts, "Int")
	case SliceV:
		*terms = append(*terms, s.Base, s.Off, s.Len, s.Cap)
		*sorts = append(*sorts, "Int", "(_ BitVec 64)", "(_ BitVec 64)", "(_ BitVec 64)")
	case Iface:
		*terms = append(*terms, s.Tag, s.Ref)
		*sorts = append(*sorts, "Int", "Int")
	case Record:
		for _, f := range s.Fields {
			x.flatten(f, terms, sorts)
		}
	case ArrayV:
		for _, f := range s.Elems {
			x.flatten(f, terms, sorts)
		}
	case GhostArr:
		*terms = append(*terms, s.T)
		*sorts = append(*sorts, s.Sort)
	default:
		x.fail("predicate argument of kind %T unsupported", v)
	}
}

// placeholder builds a value of type t out of fresh bound-variable names.
func (x *Exec) placeholder(t types.Type, hint string) Value {
	t = types.Unalias(t)
	switch u := t.Underlying().(type) {
	case *types.Struct:
		r := Record{Typ: t}
		for i := 0; i < u.NumFields(); i++ {
			r.Fields = append(r.Fields, x.placeholder(u.Field(i).Type(), hint+"."+u.Field(i).Name()))
		}
		return r
	case *types.Slice:
		return SliceV{Base: x.em.fresh(hint + ".base"), Off: x.em.fresh(hint + ".off"), Len: x.em.fresh(hint + ".len"), Cap: x.em.fresh(hint + ".cap"), Elem: u.Elem()}
	case *types.Interface:
		return Iface{Tag: x.em.fresh(hint + ".tag"), Ref: x.em.fresh(hint + ".ref"), Typ: t}
	case *types.Pointer:
		return Ptr{Base: x.em.fresh(hint), Root: u.Elem()}
	case *types.Array:
		av := ArrayV{Typ: t}
		for i := int64(0); i < u.Len(); i++ {
			av.Elems = append(av.Elems, x.placeholder(u.Elem(), fmt.Sprintf("%s.%d", hint, i)))
		}
		return av
	}
	return Scalar{T: x.em.fresh(hint), Typ: t}
}

// applyPredicate applies an opaque boolean spec function: an uninterpreted
// function of the heap leaves its body reads and of its arguments, with one
// defining axiom. Facts about it survive heap merges by congruence instead of
// having to be re-derived through the quantifiers in its body.
func (x *Exec) applyPredicate(sub *Env, sf *SpecFunc, actuals []Value, ptypes []types.Type) Value {
	x.predApps++
	if sf.Lazy {
		x.lazyApps++
	}
	def, ok := x.preds[sf.Name]
	if !ok && x.predDefining[sf.Name] {
		// recursive application met while the function's own signature is being
		// computed: it reads the same heap leaves as the enclosing body, so a
		// placeholder of the declared result type is enough here
		if sf.Result == nil {
			x.fail("recursive opaquefunc %s needs a declared result type", sf.Name)
		}
		rt := x.P.resolveType(sub.pkg, sf.Result)
		if isBool(rt) {
			return Scalar{T: "true", Typ: rt}
		}
		return Scalar{T: x.em.fresh("rec_" + sf.Name), Typ: rt}
	}
	if !ok {
		if x.predDefining == nil {
			x.predDefining = map[string]bool{}
		}
		x.predDefining[sf.Name] = true
		defer delete(x.predDefining, sf.Name)
		ph := &State{Reach: "true", Heap: map[string]string{}, Epoch: -1 - len(x.preds), Frontier: "F0"}
		penv := *sub
		penv.st = ph
		penv.old = nil
		penv.vars = map[string]Value{}
		var pterms, psorts []string
		for i, p := range sf.Params {
			pv := x.placeholder(ptypes[i], "pa_"+p.Name)
			penv.vars[p.Name] = pv
			x.flatten(pv, &pterms, &psorts)
		}
		x.em.inQuant++
		bodyv := x.evalExpr(&penv, sf.Body)
		x.em.inQuant--
		var rtyp types.Type = boolT
		if !sf.Lazy {
			if s, ok := bodyv.(Scalar); !ok || !isBool(s.Typ) {
				x.fail("predicate %s is not boolean", sf.Name)
			}
		} else {
			switch bv := bodyv.(type) {
			case Scalar:
				rtyp = bv.Typ
			case UntypedInt:
				rtyp = u64T
			default:
				x.fail("opaquefunc %s: result of kind %T unsupported", sf.Name, bodyv)
			}
		}
		body := ""
		def = &predDef{fn: "pred." + sanitize(sf.Name), typ: rtyp}
		def.leaves = sortedKeys(ph.Heap)
		var binders, args, fsorts []string
		for _, k := range def.leaves {
			l := x.leaves[k]
			binders = append(binders, "("+ph.Heap[k]+" "+l.ArraySort()+")")
			args = append(args, ph.Heap[k])
			fsorts = append(fsorts, l.ArraySort())
		}
		for i, t := range pterms {
			binders = append(binders, "("+t+" "+psorts[i]+")")
			args = append(args, t)
			fsorts = append(fsorts, psorts[i])
		}
		x.em.items = append(x.em.items, item{glob: true, line: fmt.Sprintf("(declare-fun %s (%s) %s)", def.fn, strings.Join(fsorts, " "), sortOf(rtyp))})
		// No defining axiom is emitted: the predicate is unfolded eagerly wherever
		// it is applied ("application implies body"), and wherever it has to be
		// proved the obligation offers the expanded body as an alternative goal.
		// Under the intended interpretation (predicate := body) every assertion
		// made about it is true, so what is proved holds for the body.
		_ = body
		_ = binders
		x.preds[sf.Name] = def
	}
	var args []string
	for _, k := range def.leaves {
		args = append(args, x.heapGet(sub.st, x.leaves[k]))
	}
	var sorts []string
	for _, a := range actuals {
		x.flatten(a, &args, &sorts)
	}
	app := def.fn
	if len(args) > 0 {
		app = "(" + def.fn + " " + strings.Join(args, " ") + ")"
	}
	// eager unfolding of the "predicate implies body" direction at the heap the
	// application refers to (a valid instance of the defining axiom): nested
	// quantifiers reached only through the axiom are instantiated unreliably.
	if !sf.Lazy && x.em.inQuant == 0 && !x.unfolded[app] {
		x.unfolded[app] = true
		body := x.evalBool(sub, sf.Body)
		x.em.items = append(x.em.items, item{glob: true, line: "(assert " + implies(app, body) + ")"})
	}
	return Scalar{T: app, Typ: def.typ}
}

// evalGoCall evaluates a side-effect-free Go function by inlining its SSA.
func (x *Exec) evalGoCall(env *Env, e *Expr) Value {
	var fn *ssa.Function
	var args []Value
	switch e.X.Kind {
	case "sel":
		// pkg.F(...) or recv.M(...)
		if e.X.X.Kind == "ident" {
			if _, isVar := env.lookupVar(e.X.X.Name); !isVar {
				if pkg := x.P.pkgByName[e.X.X.Name]; pkg != nil {
					if sp := x.P.ssaProg.Package(pkg); sp != nil {
						fn = sp.Func(e.X.Name)
					}
				}
			}
		}
		if fn == nil {
			recv := x.evalExprOrLValue(env, e.X.X)
			rt := valueType(recv)
			ms := x.P.ssaProg.MethodSets.MethodSet(rt)
			if sel := ms.Lookup(env.pkg, e.X.Name); sel != nil {
				fn = x.P.ssaProg.MethodValue(sel)
			} else if p, ok := recv.(Ptr); ok {
				_ = p
				// method on value receiver reached through pointer
				ms2 := x.P.ssaProg.MethodSets.MethodSet(p.elemTypeOrRoot(x))
				if sel := ms2.Lookup(env.pkg, e.X.Name); sel != nil {
					fn = x.P.ssaProg.MethodValue(sel)
					recv = x.load(env.st, p)
				}
			}
			if fn == nil {
				// try with any package for unexported lookup
				for _, pk := range x.P.pkgByName {
					if sel := x.P.ssaProg.MethodSets.MethodSet(rt).Lookup(pk, e.X.Name); sel != nil {
						fn = x.P.ssaProg.MethodValue(sel)
						break
					}
				}
			}
			args = append(args, recv)
		}
	case "ident":
		if env.pkg != nil {
			if sp := x.P.ssaProg.Package(env.pkg); sp != nil {
				fn = sp.Func(e.X.Name)
			}
		}
	}
	if fn == nil {
		x.fail("contract calls unknown function %s", e.X)
	}
	for i, a := range e.Args {
		v := x.evalExpr(env, a)
		pi := i + len(args) - i // keep index simple below
		_ = pi
		args = append(args, v)
	}
	for i := range args {
		if i < len(fn.Params) {
			if _, ok := args[i].(UntypedInt); ok {
				args[i] = x.typed(args[i], fn.Params[i].Type())
			}
			args[i] = x.coerce(args[i], fn.Params[i].Type())
		}
	}
	key := x.P.funcKey(fn)
	spec := x.P.specs.Funcs[key]
	x.pure++
	defer func() { x.pure-- }()
	st := env.st.clone()
	st.Reach = "true"
	saveW := x.written
	x.written = map[string]*WriteSet{}
	defer func() { x.written = saveW }()
	if spec != nil && !spec.Inline {
		fr := env.fr
		if fr == nil {
			fr = &Frame{occ: map[string]int{}}
		}
		var rt types.Type
		res := fn.Signature.Results()
		if res.Len() == 1 {
			rt = res.At(0).Type()
		} else if res.Len() > 1 {
			rt = res
		}
		return x.applyContract(fr, st, spec, key, x.paramNames(fn, spec), args, rt, resultNames(fn.Signature), token.NoPos)
	}
	if fn.Blocks == nil {
		x.fail("contract calls %s which has no body and no contract", key)
	}
	nf := x.newFrame(fn, spec, "spec:")
	for i, p := range fn.Params {
		nf.vals[p] = args[i]
	}
	x.stack = append(x.stack, fn)
	defer func() { x.stack = x.stack[:len(x.stack)-1] }()
	_, val := x.runBody(nf, st)
	return val
}

func (p Ptr) elemTypeOrRoot(x *Exec) types.Type {
	if len(p.Path) == 0 {
		return p.Root
	}
	return p.elemType(x)
}

var _ = fmt.Sprintf
