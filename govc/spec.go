package main

import (
	"bufio"
	"fmt"
	"os"
	"path/filepath"
	"regexp"
	"sort"
	"strconv"
	"strings"
)

type Clause struct {
	Label string
	Expr  *Expr
	Props []string
	Src   string
	File  string
	Line  int
}

type LoopSpec struct {
	Invs  []*Clause
	Steps []*Clause // asserted at every back edge only (may name locals of the body and iterstart(e))
	Decr  *Clause
}

type FuncSpec struct {
	Key          string
	File         string
	Line         int
	Params       []string // optional explicit parameter names
	Requires     []*Clause
	Ensures      []*Clause
	Assumes      []*Clause // postconditions callers may assume but the body is not checked against (listed)
	Modifies     []*Expr
	ModAll       bool
	Allocates    []string
	Loops        map[int]*LoopSpec
	Inline       bool
	Assume       bool // trusted: body not verified
	Pure         bool
	Props        []string
	PanicAssumed []string
	PanicsIf     []*Clause // specified panics: panic allowed exactly under these conditions
	EnsuresLocal []*Clause // postconditions over locals: checked at every return the named locals reach
	EntryAssumes []*Clause // global invariants assumed when the body starts (not demanded of callers); listed in evidence
	CbEnsures    []*Clause // obligations on every closure this function passes as a callback (over the callback parameters)
	Callbacks    map[string]*FuncSpec
	Decr         *Clause // termination measure for recursive functions
	InlineCalls  []string
	CallSites    map[string][]*Clause // "callee@occurrence" -> assertions over the caller's locals and arg0..argN at that call
	GhostSets    []*GhostSet
	GhostExits   []*GhostSet
	NoSafety     bool // do not emit bounds/nil obligations (pure spec use)
	Lemma        bool
	LemmaParams  []QVar
	Bound        bool
	used         bool
}

type GhostDecl struct {
	Name  string
	Type  *Expr
	Field bool   // ghost field of a struct type
	Owner string // rootKey of owner struct for ghost fields
}

type SpecFunc struct {
	Opaque bool // predicate: applied as an uninterpreted function with a defining axiom
	Result *Expr // declared result type (opaquefunc name(..) : T = body), needed for recursive ones
	Lazy   bool // opaquefunc: uninterpreted function (any result sort), never unfolded when assumed; a goal offers its one-level unfolding as alternative
	Name   string
	Params []QVar
	Body   *Expr
	Pkg    string
}

// Hook is a declaration attached to a heap leaf family.
type Hook struct {
	Kind   string // protected | onwrite
	Target *Expr  // pkg.Type.field[.field] optionally with [*]
	Elems  bool
	By     *Expr  // protected: guard expression over `this`
	Ghost  string // onwrite: ghost name
	Value  *Expr  // onwrite: new value
	Props  []string
	Src    string
	File   string
	Line   int
	// resolved
	Key     string
	rootKey string
}

type GhostSet struct {
	Name  string
	Value *Expr
	Src   string
}

type Specs struct {
	Macros    map[string]string // define NAME text  -> $NAME in later clauses
	Owned     map[string]bool // slice-typed fields whose backing arrays form their own heap region
	OwnedDecl []*Hook
	Hooks     []*Hook
	Funcs     map[string]*FuncSpec
	Ghosts    map[string]*GhostDecl
	SpecFuncs map[string]*SpecFunc
	Files     []string
	Lemmas    []string
}

var tagRe = regexp.MustCompile(`\s@C[0-9]{2,3}\b`)
var labelRe = regexp.MustCompile(`^\[([A-Za-z0-9_.\-]+)\]\s*`)

var clauseKeywords = map[string]bool{"decreases": true, "inlinecalls": true, "assumes": true, "ghostset": true, "ghostexit": true, "preserves": true, "requires": true, "ensures": true, "modifies": true, "allocates": true,
	"loop": true, "inline": true, "assume": true, "pure": true, "props": true, "panic_assumed": true,
	"panics_if": true, "cbensures": true, "entryassumes": true, "ensureslocal": true, "callback": true, "nosafety": true, "params": true, "bounded": true, "callsite": true}

func newSpecs() *Specs {
	return &Specs{Macros: map[string]string{}, Owned: map[string]bool{}, Funcs: map[string]*FuncSpec{}, Ghosts: map[string]*GhostDecl{}, SpecFuncs: map[string]*SpecFunc{}}
}

// loadSpecFile reads either a comment-only Go contract file (lines "//@ ...")
// or a plain .spec file.
func (sp *Specs) loadSpecFile(path string) error {
	f, err := os.Open(path)
	if err != nil {
		return err
	}
	defer f.Close()
	isGo := strings.HasSuffix(path, ".go")
	sc := bufio.NewScanner(f)
	sc.Buffer(make([]byte, 1<<20), 1<<20)
	var lines []string
	var nums []int
	ln := 0
	pkg := ""
	for sc.Scan() {
		ln++
		t := sc.Text()
		if isGo {
			tt := strings.TrimSpace(t)
			if strings.HasPrefix(tt, "package ") {
				pkg = strings.TrimSpace(strings.TrimPrefix(tt, "package "))
				continue
			}
			if !strings.HasPrefix(tt, "//@") {
				continue
			}
			t = strings.TrimPrefix(tt, "//@")
		} else {
			if i := strings.Index(t, "#"); i >= 0 && (i == 0 || t[i-1] == ' ') {
				t = t[:i]
			}
		}
		if strings.TrimSpace(t) == "" {
			continue
		}
		lines = append(lines, t)
		nums = append(nums, ln)
	}
	sp.Files = append(sp.Files, path)
	var cur *FuncSpec
	var curCb *FuncSpec
	var scope []string
	// join continuation lines
	type stmt struct {
		text string
		line int
	}
	var stmts []stmt
	for i, t := range lines {
		w := firstWord(t)
		if w == "define" {
			stmts = append(stmts, stmt{strings.TrimSpace(t), nums[i]})
			continue
		}
		if w == "scope" || w == "spec" || w == "owned" || w == "predicate" || w == "opaquefunc" || w == "prove" || w == "protected" || w == "writeguard" || w == "onwrite" || w == "ghost" || w == "ghostfield" || w == "specfunc" || w == "lemma" || clauseKeywords[w] {
			stmts = append(stmts, stmt{strings.TrimSpace(t), nums[i]})
		} else if len(stmts) > 0 {
			stmts[len(stmts)-1].text += " " + strings.TrimSpace(t)
		} else {
			return fmt.Errorf("%s:%d: stray line %q", path, nums[i], t)
		}
	}
	for _, s := range stmts {
		w := firstWord(s.text)
		if w == "define" {
			parts := strings.SplitN(strings.TrimSpace(strings.TrimPrefix(s.text, w)), " ", 2)
			if len(parts) == 2 {
				sp.Macros[parts[0]] = sp.expandMacros(strings.TrimSpace(parts[1]))
			}
			continue
		}
		s.text = sp.expandMacros(s.text)
		rest := strings.TrimSpace(strings.TrimPrefix(s.text, w))
		errf := func(format string, a ...interface{}) error {
			return fmt.Errorf("%s:%d: %s", path, s.line, fmt.Sprintf(format, a...))
		}
		switch w {
		case "scope":
			// the specs that follow in this file replace the general contract of
			// the same function for callers in the named packages only
			scope = strings.Fields(rest)
		case "spec":
			key := rest
			var params []string
			if i := strings.LastIndex(rest, "("); i > 0 && strings.HasSuffix(rest, ")") && !strings.HasSuffix(rest[:i], ".") {
				// optional explicit parameter list: spec pkg.F(a, b)
				inner := rest[i+1 : len(rest)-1]
				if !strings.ContainsAny(inner, "*") {
					key = strings.TrimSpace(rest[:i])
					for _, p := range strings.Split(inner, ",") {
						if p = strings.TrimSpace(p); p != "" {
							params = append(params, p)
						}
					}
				}
			}
			if pkg != "" && !strings.Contains(strings.SplitN(key, "(", 2)[0], ".") {
				key = pkg + "." + key
			}
			cur = &FuncSpec{Key: key, File: path, Line: s.line, Params: params, Loops: map[int]*LoopSpec{}, Callbacks: map[string]*FuncSpec{}}
			curCb = nil
			if len(scope) > 0 {
				for _, sc := range scope {
					k := "@" + sc + ":" + key
					if _, dup := sp.Funcs[k]; dup {
						return errf("duplicate spec %s", k)
					}
					sp.Funcs[k] = cur
				}
				break
			}
			if _, dup := sp.Funcs[key]; dup {
				return errf("duplicate spec %s", key)
			}
			sp.Funcs[key] = cur
		case "owned":
			te, err := parseExpr(strings.TrimSpace(rest))
			if err != nil {
				return errf("%v", err)
			}
			sp.OwnedDecl = append(sp.OwnedDecl, &Hook{Kind: "owned", Target: te, File: path, Line: s.line})
		case "protected", "writeguard", "onwrite":
			h := &Hook{Kind: w, File: path, Line: s.line, Src: rest}
			for _, m := range tagRe.FindAllString(" "+rest, -1) {
				h.Props = append(h.Props, strings.TrimSpace(m)[1:])
			}
			body := strings.TrimSpace(tagRe.ReplaceAllString(" "+rest, ""))
			var tgt, tail string
			if w == "protected" || w == "writeguard" {
				i := strings.Index(body, " by ")
				if i < 0 {
					return errf("protected TARGET by EXPR")
				}
				tgt, tail = strings.TrimSpace(body[:i]), strings.TrimSpace(body[i+4:])
				e, err := parseExpr(tail)
				if err != nil {
					return errf("%v", err)
				}
				h.By = e
			} else {
				i := strings.Index(body, ":")
				if i < 0 {
					return errf("onwrite TARGET: GHOST = EXPR")
				}
				tgt, tail = strings.TrimSpace(body[:i]), strings.TrimSpace(body[i+1:])
				j := strings.Index(tail, "=")
				if j < 0 {
					return errf("onwrite TARGET: GHOST = EXPR")
				}
				h.Ghost = strings.TrimSpace(tail[:j])
				e, err := parseExpr(strings.TrimSpace(tail[j+1:]))
				if err != nil {
					return errf("%v", err)
				}
				h.Value = e
			}
			if strings.HasSuffix(tgt, "[*]") {
				h.Elems = true
				tgt = strings.TrimSuffix(tgt, "[*]")
			}
			te, err := parseExpr(tgt)
			if err != nil {
				return errf("%v", err)
			}
			h.Target = te
			sp.Hooks = append(sp.Hooks, h)
		case "prove":
			// prove NAME(a T, b U): a machine-checked lemma (requires ==> ensures)
			pi := strings.Index(rest, "(")
			if pi < 0 || !strings.HasSuffix(rest, ")") {
				return errf("prove NAME(params)")
			}
			key := "lemma:" + strings.TrimSpace(rest[:pi])
			cur = &FuncSpec{Key: key, File: path, Line: s.line, Loops: map[int]*LoopSpec{}, Callbacks: map[string]*FuncSpec{}, Lemma: true}
			if pkg != "" {
				cur.Key = "lemma:" + pkg + "." + strings.TrimSpace(rest[:pi])
			}
			inner := strings.TrimSpace(rest[pi+1 : len(rest)-1])
			if inner != "" {
				for _, p := range strings.Split(inner, ",") {
					fs := strings.Fields(p)
					if len(fs) != 2 {
						return errf("lemma param %q", p)
					}
					ty, err := parseTypeExpr(fs[1])
					if err != nil {
						return errf("%v", err)
					}
					cur.LemmaParams = append(cur.LemmaParams, QVar{fs[0], ty})
				}
			}
			curCb = nil
			sp.Funcs[cur.Key] = cur
		case "ghost":
			parts := strings.SplitN(rest, " ", 2)
			if len(parts) != 2 {
				return errf("ghost NAME TYPE")
			}
			ty, err := parseTypeExpr(parts[1])
			if err != nil {
				return errf("%v", err)
			}
			sp.Ghosts[parts[0]] = &GhostDecl{Name: parts[0], Type: ty}
		case "ghostfield":
			// ghostfield pkg.Type.name TYPE
			parts := strings.SplitN(rest, " ", 2)
			if len(parts) != 2 {
				return errf("ghostfield pkg.Type.name TYPE")
			}
			i := strings.LastIndex(parts[0], ".")
			ty, err := parseTypeExpr(parts[1])
			if err != nil {
				return errf("%v", err)
			}
			name := parts[0][i+1:]
			sp.Ghosts[parts[0]] = &GhostDecl{Name: name, Type: ty, Field: true, Owner: parts[0][:i]}
		case "specfunc", "predicate", "opaquefunc":
			// specfunc name(a T, b U) = expr
			eqi := strings.Index(rest, "=")
			if eqi < 0 {
				return errf("specfunc needs '='")
			}
			head := strings.TrimSpace(rest[:eqi])
			// careful: '=' may be part of '==' in body only; head has none
			body := strings.TrimSpace(rest[eqi+1:])
			var resType *Expr
			if ci := strings.LastIndex(head, ") :"); ci >= 0 {
				rt, err := parseTypeExpr(strings.TrimSpace(head[ci+3:]))
				if err != nil {
					return errf("%v", err)
				}
				resType = rt
				head = strings.TrimSpace(head[:ci+1])
			}
			pi := strings.Index(head, "(")
			if pi < 0 || !strings.HasSuffix(head, ")") {
				return errf("specfunc head")
			}
			name := strings.TrimSpace(head[:pi])
			var params []QVar
			inner := strings.TrimSpace(head[pi+1 : len(head)-1])
			if inner != "" {
				for _, p := range strings.Split(inner, ",") {
					fs := strings.Fields(p)
					if len(fs) != 2 {
						return errf("specfunc param %q", p)
					}
					ty, err := parseTypeExpr(fs[1])
					if err != nil {
						return errf("%v", err)
					}
					params = append(params, QVar{fs[0], ty})
				}
			}
			be, err := parseExpr(body)
			if err != nil {
				return errf("%v", err)
			}
			sp.SpecFuncs[name] = &SpecFunc{Name: name, Params: params, Body: be, Pkg: pkg, Opaque: w == "predicate" || w == "opaquefunc", Lazy: w == "opaquefunc", Result: resType}
		case "lemma":
			sp.Lemmas = append(sp.Lemmas, rest)
		default:
			if cur == nil {
				return errf("clause outside spec")
			}
			tgt := cur
			if curCb != nil && w != "callback" {
				tgt = curCb
			}
			if err := sp.parseClause(tgt, w, rest, path, s.line); err != nil {
				return errf("%v", err)
			}
			if w == "callback" {
				// callback NAME(params): subsequent indented clauses belong to it until
				// "end"; we keep it simple: callback clauses are written on the
				// callback line itself separated by ';'
				curCb = nil
			}
		}
	}
	return nil
}

func firstWord(s string) string {
	s = strings.TrimSpace(s)
	if i := strings.IndexAny(s, " \t"); i >= 0 {
		return s[:i]
	}
	return s
}

func parseTypeExpr(s string) (*Expr, error) {
	toks, err := lex(s)
	if err != nil {
		return nil, err
	}
	l := &lexer{src: s, toks: toks}
	e, err := l.typeExpr()
	if err != nil {
		return nil, err
	}
	if l.peek().kind != "eof" {
		return nil, fmt.Errorf("trailing tokens in type %q", s)
	}
	return e, nil
}

func parseClauseBody(rest, path string, line int) (*Clause, error) {
	c := &Clause{File: path, Line: line}
	for _, m := range tagRe.FindAllString(" "+rest, -1) {
		c.Props = append(c.Props, strings.TrimSpace(m)[1:])
	}
	rest = strings.TrimSpace(tagRe.ReplaceAllString(" "+rest, ""))
	if m := labelRe.FindStringSubmatch(rest); m != nil {
		c.Label = m[1]
		rest = rest[len(m[0]):]
	}
	e, err := parseExpr(rest)
	if err != nil {
		return nil, err
	}
	c.Expr = e
	c.Src = rest
	return c, nil
}

func (sp *Specs) parseClause(fs *FuncSpec, w, rest, path string, line int) error {
	switch w {
	case "requires", "ensures", "panics_if", "assumes", "cbensures", "entryassumes", "ensureslocal":
		c, err := parseClauseBody(rest, path, line)
		if err != nil {
			return err
		}
		switch w {
		case "requires":
			if c.Label == "" {
				c.Label = "pre" + strconv.Itoa(len(fs.Requires))
			}
			fs.Requires = append(fs.Requires, c)
		case "ensures":
			if c.Label == "" {
				c.Label = "post" + strconv.Itoa(len(fs.Ensures))
			}
			fs.Ensures = append(fs.Ensures, c)
		case "panics_if":
			fs.PanicsIf = append(fs.PanicsIf, c)
		case "ensureslocal":
			if c.Label == "" {
				c.Label = "lpost" + strconv.Itoa(len(fs.EnsuresLocal))
			}
			fs.EnsuresLocal = append(fs.EnsuresLocal, c)
		case "entryassumes":
			if c.Label == "" {
				c.Label = "entry" + strconv.Itoa(len(fs.EntryAssumes))
			}
			fs.EntryAssumes = append(fs.EntryAssumes, c)
		case "cbensures":
			if c.Label == "" {
				c.Label = "cbpost" + strconv.Itoa(len(fs.CbEnsures))
			}
			fs.CbEnsures = append(fs.CbEnsures, c)
		case "assumes":
			if c.Label == "" {
				c.Label = "assumed" + strconv.Itoa(len(fs.Assumes))
			}
			fs.Assumes = append(fs.Assumes, c)
		}
	case "modifies":
		if strings.TrimSpace(rest) == "*" {
			fs.ModAll = true
			return nil
		}
		for _, it := range splitTop(rest) {
			if strings.HasPrefix(it, "[]") || strings.HasPrefix(it, "map[") || strings.HasPrefix(it, "cell:") {
				fs.Modifies = append(fs.Modifies, &Expr{Kind: "class", Name: it})
				continue
			}
			e, err := parseExpr(it)
			if err != nil {
				return err
			}
			fs.Modifies = append(fs.Modifies, e)
		}
	case "allocates":
		for _, it := range strings.Split(rest, ",") {
			fs.Allocates = append(fs.Allocates, strings.TrimSpace(it))
		}
	case "loop":
		parts := strings.SplitN(rest, " ", 3)
		if len(parts) < 3 {
			return fmt.Errorf("loop N invariant|decreases EXPR")
		}
		n, err := strconv.Atoi(strings.TrimSuffix(parts[0], ":"))
		if err != nil {
			return err
		}
		c, err := parseClauseBody(parts[2], path, line)
		if err != nil {
			return err
		}
		ls := fs.Loops[n]
		if ls == nil {
			ls = &LoopSpec{}
			fs.Loops[n] = ls
		}
		switch parts[1] {
		case "invariant":
			if c.Label == "" {
				c.Label = "inv" + strconv.Itoa(len(ls.Invs))
			}
			ls.Invs = append(ls.Invs, c)
		case "step":
			if c.Label == "" {
				c.Label = "step" + strconv.Itoa(len(ls.Steps))
			}
			ls.Steps = append(ls.Steps, c)
		case "decreases":
			ls.Decr = c
		default:
			return fmt.Errorf("loop clause %q", parts[1])
		}
	case "preserves":
		c, err := parseClauseBody(rest, path, line)
		if err != nil {
			return err
		}
		if c.Label == "" {
			c.Label = "inv" + strconv.Itoa(len(fs.Requires))
		}
		c2 := *c
		fs.Requires = append(fs.Requires, c)
		fs.Ensures = append(fs.Ensures, &c2)
	case "ghostset", "ghostexit":
		j := strings.Index(rest, "=")
		if j < 0 {
			return fmt.Errorf("ghostset NAME = EXPR")
		}
		e, err := parseExpr(strings.TrimSpace(rest[j+1:]))
		if err != nil {
			return err
		}
		gs := &GhostSet{Name: strings.TrimSpace(rest[:j]), Value: e, Src: rest}
		if w == "ghostexit" {
			fs.GhostExits = append(fs.GhostExits, gs)
		} else {
			fs.GhostSets = append(fs.GhostSets, gs)
		}
	case "decreases":
		c, err := parseClauseBody(rest, path, line)
		if err != nil {
			return err
		}
		fs.Decr = c
	case "callsite":
		// callsite CALLEE@N requires [label] EXPR
		parts := strings.SplitN(strings.TrimSpace(rest), " ", 3)
		if len(parts) < 3 || parts[1] != "requires" || !strings.Contains(parts[0], "@") {
			return fmt.Errorf("callsite CALLEE@N requires EXPR")
		}
		c, err := parseClauseBody(parts[2], path, line)
		if err != nil {
			return err
		}
		if fs.CallSites == nil {
			fs.CallSites = map[string][]*Clause{}
		}
		if c.Label == "" {
			c.Label = "site" + strconv.Itoa(len(fs.CallSites[parts[0]]))
		}
		fs.CallSites[parts[0]] = append(fs.CallSites[parts[0]], c)
	case "inlinecalls":
		for _, it := range strings.Split(rest, ",") {
			fs.InlineCalls = append(fs.InlineCalls, strings.TrimSpace(it))
		}
	case "inline":
		fs.Inline = true
	case "assume":
		fs.Assume = true
	case "bounded":
		fs.Bound = true
	case "pure":
		fs.Pure = true
	case "nosafety":
		fs.NoSafety = true
	case "props":
		fs.Props = append(fs.Props, strings.Fields(strings.ReplaceAll(rest, "@", ""))...)
	case "params":
		for _, p := range strings.Split(rest, ",") {
			fs.Params = append(fs.Params, strings.TrimSpace(p))
		}
	case "panic_assumed":
		fs.PanicAssumed = append(fs.PanicAssumed, strings.Trim(strings.TrimSpace(rest), "\""))
	case "callback":
		// callback f(a, b, c): requires E; ensures E; modifies X
		ci := strings.Index(rest, ":")
		if ci < 0 {
			return fmt.Errorf("callback NAME(params): clauses")
		}
		head := strings.TrimSpace(rest[:ci])
		pi := strings.Index(head, "(")
		name := head
		cb := &FuncSpec{Key: fs.Key + "#" + head, File: path, Line: line, Loops: map[int]*LoopSpec{}, Callbacks: map[string]*FuncSpec{}}
		if pi > 0 {
			name = strings.TrimSpace(head[:pi])
			for _, p := range strings.Split(strings.TrimSuffix(head[pi+1:], ")"), ",") {
				if p = strings.TrimSpace(p); p != "" {
					cb.Params = append(cb.Params, p)
				}
			}
		}
		for _, cl := range strings.Split(rest[ci+1:], ";") {
			cl = strings.TrimSpace(cl)
			if cl == "" {
				continue
			}
			w2 := firstWord(cl)
			if err := sp.parseClause(cb, w2, strings.TrimSpace(strings.TrimPrefix(cl, w2)), path, line); err != nil {
				return err
			}
		}
		fs.Callbacks[name] = cb
	default:
		return fmt.Errorf("unknown clause %q", w)
	}
	return nil
}

// splitTop splits on commas not nested in brackets.
func splitTop(s string) []string {
	var out []string
	d := 0
	st := 0
	for i, c := range s {
		switch c {
		case '(', '[':
			d++
		case ')', ']':
			d--
		case ',':
			if d == 0 {
				out = append(out, strings.TrimSpace(s[st:i]))
				st = i + 1
			}
		}
	}
	if strings.TrimSpace(s[st:]) != "" {
		out = append(out, strings.TrimSpace(s[st:]))
	}
	return out
}

func (sp *Specs) loadDir(dir, pattern string) error {
	ms, _ := filepath.Glob(filepath.Join(dir, pattern))
	sort.Strings(ms)
	for _, m := range ms {
		if err := sp.loadSpecFile(m); err != nil {
			return err
		}
	}
	return nil
}

var macroRe = regexp.MustCompile(`\$[A-Za-z_][A-Za-z0-9_]*`)

func (sp *Specs) expandMacros(t string) string {
	return macroRe.ReplaceAllStringFunc(t, func(m string) string {
		if v, ok := sp.Macros[m[1:]]; ok {
			return v
		}
		return m
	})
}
