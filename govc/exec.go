package main

// Symbolic execution of go/ssa function bodies into verification conditions.

import (
	"os"
	"fmt"
	"go/constant"
	"go/token"
	"go/types"
	"regexp"
	"sort"
	"strconv"
	"strings"

	"golang.org/x/tools/go/ssa"
)

type execError struct{ msg string }

func (x *Exec) fail(format string, a ...interface{}) {
	panic(execError{fmt.Sprintf(format, a...)})
}

type WriteSet struct {
	Whole bool
	Bases []string
	New   map[string]bool // base -> object allocated by the function itself
}

type Exec struct {
	P        *Prog
	em       *Emitter
	top      *ssa.Function
	topSpec  *FuncSpec
	topKey   string
	leaves   map[string]*LeafInfo
	written  map[string]*WriteSet
	notes    map[string]bool
	entry    *State
	F0       string
	stack    []*ssa.Function
	assumedPanics map[string]bool
	strLits  map[string]string
	pure     int
	discover int
	curBlock *ssa.BasicBlock // block of the call instruction being executed
	sitePost map[string]*State // state right after the k-th contract call of a callee in the top function (aftercall)
	siteRes  map[string]Value  // what that call returned (callresult)
	siteHits map[string]int  // callsite clauses matched by a call
	globals  map[string]string
	usedSpecs map[string]bool
	assumedSpecs map[string]bool
	inlined  map[string]bool
	defProps []string
	inC11    bool
	inputs   []NamedTerm
	ownRoot  types.Type
	storeNew bool
	entryMeasure string
	preds    map[string]*predDef
	unfolded map[string]bool
	expandPreds bool
	lazyDepth   int
	lazyApps    int
	predDefining map[string]bool
	predApps int
	hookNew  Value
	havocStore bool
	wfDone   map[string]bool
	transferred map[string]string
	xferOwner map[string]string
	borrow   map[string][2]string
	hookPtr  *Ptr
	assumedClauses map[string]bool
}

func (x *Exec) ownerFor(key, base string, idx []string) *Owner {
	if len(idx) != 0 || x.ownRoot == nil {
		return nil
	}
	for _, h := range x.P.specs.Hooks {
		if h.Elems && h.Key == key {
			return &Owner{Key: key, Base: base, Root: x.ownRoot}
		}
	}
	return nil
}

// regionOf resolves the region of a slice whose array was transferred into a
// field's region after the SSA value was created.
func (x *Exec) regionOf(s SliceV) SliceV {
	if s.Region == "" {
		if r, ok := x.transferred[s.Base]; ok {
			s.Region = r
			s.Owner = x.xferOwner[s.Base]
		}
	}
	return s
}

type loopInfo struct {
	header   *ssa.BasicBlock
	ordinal  int
	body     map[int]bool
	backPred map[int]bool
	variant0 string
	spec     *LoopSpec
	entrySt  *State
	entryVar map[string]Value
	headSt   *State
	headVar  map[string]Value
}

type retInfo struct {
	st  *State
	val Value
	blk int
}

type deferred struct {
	call *ssa.CallCommon
	args []Value
	fnv  Value
	pos  token.Pos
}

type Frame struct {
	fn       *ssa.Function
	spec     *FuncSpec
	vals     map[ssa.Value]Value
	prefix   string
	blockOut map[int]*State
	edge     map[[2]int]string
	loops    map[int]*loopInfo
	rets     []retInfo
	isTop    bool
	free     []Value
	occ      map[string]int
	names    map[string][]ssa.Value
	defers   []deferred
	cbSpecs  map[string]*FuncSpec // callback parameter name -> contract
	args     []Value
	nilok    map[string]bool
	preSt    *State
	constRefs map[string][]*ssa.DebugRef
	refs      map[string][]*ssa.DebugRef // every reference (definition or use) of a named local, in source order
	phis      map[string][]*ssa.Phi      // merge points of a named local
	threaded map[[2]int][]edgeIn
}

func (x *Exec) note(format string, a ...interface{}) {
	x.notes[fmt.Sprintf(format, a...)] = true
}

// ---------- leaves / heap ----------

func (x *Exec) leaf(key string, nidx int, sort string) *LeafInfo {
	if l, ok := x.leaves[key]; ok {
		if l.NIdx != nidx || l.Sort != sort {
			x.fail("leaf %s used with two shapes (%d,%s) vs (%d,%s)", key, l.NIdx, l.Sort, nidx, sort)
		}
		return l
	}
	l := &LeafInfo{Key: key, NIdx: nidx, Sort: sort}
	x.leaves[key] = l
	return l
}

func (x *Exec) heapGet(st *State, l *LeafInfo) string {
	if t, ok := st.Heap[l.Key]; ok {
		x.leafWf(l, t, st)
		return t
	}
	name := fmt.Sprintf("L.%s.e%d", sanitize(l.Key), st.Epoch)
	x.em.declare(name, l.ArraySort())
	st.Heap[l.Key] = name
	x.leafWf(l, name, st)
	return name
}

// leafWf states heap well-formedness for an unconstrained version of a
// reference-typed leaf: every reference stored in it denotes nil or an
// allocated object. (Versions built by stores inherit it from the stored
// values.) It is needed where a reference is read under a quantifier.
func (x *Exec) leafWf(l *LeafInfo, name string, st *State) {
	if l.Ghost || l.Sort != "Int" || strings.HasSuffix(l.Key, "#tag") || x.wfDone[name] || st.Epoch < 0 {
		return
	}
	if !(strings.HasPrefix(name, "L.") || strings.HasPrefix(name, "Hc.") || strings.HasPrefix(name, "Ha.") || strings.HasPrefix(name, "Hh.") || strings.HasPrefix(name, "Hn.")) {
		return
	}
	x.wfDone[name] = true
	r := x.em.fresh("wfr")
	switch l.NIdx {
	case 0:
		x.em.items = append(x.em.items, item{glob: true, line: fmt.Sprintf("(assert (forall ((%s Int)) (! (and (<= 0 (select %s %s)) (<= (select %s %s) %s)) :pattern ((select %s %s)))))", r, name, r, name, r, st.Frontier, name, r)})
	case 1:
		i := x.em.fresh("wfi")
		x.em.items = append(x.em.items, item{glob: true, line: fmt.Sprintf("(assert (forall ((%s Int) (%s (_ BitVec 64))) (! (and (<= 0 (select (select %s %s) %s)) (<= (select (select %s %s) %s) %s)) :pattern ((select (select %s %s) %s)))))", r, i, name, r, i, name, r, i, st.Frontier, name, r, i)})
	}
}

func (x *Exec) recordWrite(key, base string, whole bool) {
	ws := x.written[key]
	if ws == nil {
		ws = &WriteSet{New: map[string]bool{}}
		x.written[key] = ws
	}
	if whole {
		ws.Whole = true
		return
	}
	for _, b := range ws.Bases {
		if b == base {
			if !x.storeNew {
				ws.New[base] = false
			}
			return
		}
	}
	ws.Bases = append(ws.Bases, base)
	ws.New[base] = x.storeNew
}

func selectN(arr string, idx []string) string {
	t := arr
	for _, i := range idx {
		t = "(select " + t + " " + i + ")"
	}
	return t
}

func storeN(arr string, idx []string, v string) string {
	if len(idx) == 0 {
		return v
	}
	if len(idx) == 1 {
		return "(store " + arr + " " + idx[0] + " " + v + ")"
	}
	inner := storeN("(select "+arr+" "+idx[0]+")", idx[1:], v)
	return "(store " + arr + " " + idx[0] + " " + inner + ")"
}

// leafLoad reads one scalar leaf.
func (x *Exec) leafLoad(st *State, key string, base string, idx []string, sort string) string {
	l := x.leaf(key, len(idx), sort)
	cur := x.heapGet(st, l)
	// read-over-write: walk back through stores that syntactically hit or miss
	for {
		rec, ok := x.em.stores[cur]
		if !ok || len(rec.idx) != len(idx) {
			break
		}
		if rec.base == base && sameTerms(rec.idx, idx) {
			return rec.val
		}
		if distinctRefs(rec.base, base) || (rec.base == base && distinctLits(rec.idx, idx)) {
			cur = rec.prev
			continue
		}
		break
	}
	return selectN(cur, append([]string{base}, idx...))
}

func sameTerms(a, b []string) bool {
	for i := range a {
		if a[i] != b[i] {
			return false
		}
	}
	return true
}

// distinctRefs: two different allocation sites of this function, or an
// allocation of this function versus the entry frontier-bounded names, differ.
func distinctRefs(a, b string) bool {
	return a != b && strings.HasPrefix(a, "new!") && strings.HasPrefix(b, "new!")
}

func distinctLits(a, b []string) bool {
	for i := range a {
		if isLit(a[i]) && isLit(b[i]) && a[i] != b[i] {
			return true
		}
	}
	return false
}

func (x *Exec) leafStore(st *State, key string, base string, idx []string, sort string, v string) {
	l := x.leaf(key, len(idx), sort)
	cur := x.heapGet(st, l)
	nt := storeN(cur, append([]string{base}, idx...), v)
	name := x.em.define("H."+key, l.ArraySort(), nt)
	st.Heap[key] = name
	if name != nt {
		x.em.stores[name] = &storeRec{prev: cur, base: base, idx: append([]string{}, idx...), val: v}
	}
	x.recordWrite(key, base, false)
}

// load reads the value at pointer p.
func (x *Exec) load(st *State, p Ptr) Value {
	t, key, idx, err := typeAtPath(p.Root, p.Path)
	if err != nil {
		x.fail("load: %v", err)
	}
	x.ownRoot = p.Root
	return x.loadAt(st, t, key, p.Base, idx)
}

func (x *Exec) loadAt(st *State, t types.Type, key, base string, idx []string) Value {
	t = types.Unalias(t)
	switch u := t.Underlying().(type) {
	case *types.Struct:
		r := Record{Typ: t}
		for i := 0; i < u.NumFields(); i++ {
			f := u.Field(i)
			r.Fields = append(r.Fields, x.loadAt(st, f.Type(), key+"."+f.Name(), base, idx))
		}
		return r
	case *types.Slice:
		sv := SliceV{
			Base: x.em.define("sl.base", "Int", x.leafLoad(st, key+"#base", base, idx, "Int")),
			Off:  x.em.define("sl.off", "(_ BitVec 64)", x.leafLoad(st, key+"#off", base, idx, "(_ BitVec 64)")),
			Len:  x.em.define("sl.len", "(_ BitVec 64)", x.leafLoad(st, key+"#len", base, idx, "(_ BitVec 64)")),
			Cap:  x.em.define("sl.cap", "(_ BitVec 64)", x.leafLoad(st, key+"#cap", base, idx, "(_ BitVec 64)")),
			Elem: u.Elem(),
			Own:  x.ownerFor(key, base, idx),
		}
		if x.P.specs.Owned[key] {
			sv.Region = key
			if len(idx) == 0 {
				sv.Owner = base
			}
		} else if b, ok := x.borrow[key+"|"+base+"|"+strings.Join(idx, ",")]; ok {
			sv.Region, sv.Owner = b[0], b[1]
		}
		x.assumeSliceWf(sv, st)
		return sv
	case *types.Interface:
		return Iface{
			Tag: x.leafLoad(st, key+"#tag", base, idx, "Int"),
			Ref: x.leafLoad(st, key+"#ref", base, idx, "Int"),
			Typ: t,
		}
	case *types.Pointer:
		term := x.leafLoad(st, key, base, idx, "Int")
		term = x.em.define("p", "Int", term)
		x.em.assume(fmt.Sprintf("(and (<= 0 %s) (<= %s %s))", term, term, st.Frontier))
		return Ptr{Base: term, Root: u.Elem()}
	case *types.Array:
		if u.Len() > 32 {
			x.fail("load of whole array value %s unsupported", typeKey(t))
		}
		av := ArrayV{Typ: t}
		for i := int64(0); i < u.Len(); i++ {
			av.Elems = append(av.Elems, x.loadAt(st, u.Elem(), arrayElemKey(key), base, append(append([]string{}, idx...), bvLit(uint64(i), 64))))
		}
		return av
	case *types.Signature:
		return FuncV{Name: x.leafLoad(st, key, base, idx, "Int"), Typ: t}
	case *types.Map:
		term := x.leafLoad(st, key, base, idx, "Int")
		term = x.em.define("m", "Int", term)
		x.em.assume(fmt.Sprintf("(and (<= 0 %s) (<= %s %s))", term, term, st.Frontier))
		return Scalar{T: term, Typ: t}
	}
	return Scalar{T: x.leafLoad(st, key, base, idx, sortOf(t)), Typ: t}
}

func (x *Exec) store(st *State, p Ptr, v Value) {
	t, key, idx, err := typeAtPath(p.Root, p.Path)
	if err != nil {
		x.fail("store: %v", err)
	}
	saved := x.storeNew
	x.storeNew = p.New
	x.storeAt(st, t, key, p.Base, idx, v)
	x.storeNew = saved
}

func (x *Exec) storeAt(st *State, t types.Type, key, base string, idx []string, v Value) {
	t = types.Unalias(t)
	switch u := t.Underlying().(type) {
	case *types.Struct:
		r, ok := v.(Record)
		if !ok {
			x.fail("store struct: value is %T", v)
		}
		for i := 0; i < u.NumFields(); i++ {
			f := u.Field(i)
			x.storeAt(st, f.Type(), key+"."+f.Name(), base, idx, r.Fields[i])
		}
		return
	case *types.Slice:
		s := x.regionOf(x.asSlice(v, u.Elem()))
		destRegion := ""
		if x.P.specs.Owned[key] {
			destRegion = key
		}
		destOwner := ""
		if destRegion != "" && len(idx) == 0 {
			destOwner = base
		}
		if s.Region == destRegion && s.Region != "" && s.Owner != destOwner && s.Base != "0" && !x.havocStore {
			x.fail("array owned by one %s is stored into another: outside the modelled subset", key)
		}
		if s.Region != "" && destRegion == "" && strings.HasPrefix(base, "new!") && !x.havocStore {
			// a view of an owned array kept in a local object of this function (e.g.
			// a decoder over a buffer): remember where it came from
			x.borrow[key+"|"+base+"|"+strings.Join(idx, ",")] = [2]string{s.Region, s.Owner}
		} else if s.Region != destRegion && s.Base != "0" && !x.havocStore {
			if s.Region != "" {
				x.fail("array of region %s stored into %s: arrays shared between fields are outside the modelled subset", s.Region, key)
			}
			// ownership transfer of a not-yet-owned array into the field's region
			if !s.New {
				x.note("array passed in by the caller is stored into %s: assumed not to be referenced from elsewhere afterwards", key)
			}
			var src, dst [][2]string
			x.elemLeaves(u.Elem(), s.key(), &src)
			x.elemLeaves(u.Elem(), rootKey(sliceRoot(u.Elem(), destRegion)), &dst)
			for i := range src {
				sl := x.leaf(src[i][0], 1, src[i][1])
				dl := x.leaf(dst[i][0], 1, dst[i][1])
				cur := x.heapGet(st, dl)
				wb := s.Base
				if destOwner != "" {
					wb = destOwner
				}
				st.Heap[dl.Key] = x.em.define("H.xfer", dl.ArraySort(), "(store "+cur+" "+wb+" (select "+x.heapGet(st, sl)+" "+s.Base+"))")
				saved := x.storeNew
				x.storeNew = s.New && destOwner == ""
				x.recordWrite(dl.Key, wb, false)
				x.storeNew = saved
			}
			x.transferred[s.Base] = destRegion
			x.xferOwner[s.Base] = destOwner
		}
		x.leafStore(st, key+"#base", base, idx, "Int", s.Base)
		x.leafStore(st, key+"#off", base, idx, "(_ BitVec 64)", s.Off)
		x.leafStore(st, key+"#len", base, idx, "(_ BitVec 64)", s.Len)
		x.leafStore(st, key+"#cap", base, idx, "(_ BitVec 64)", s.Cap)
		return
	case *types.Interface:
		i := x.asIface(v, t)
		x.leafStore(st, key+"#tag", base, idx, "Int", i.Tag)
		x.leafStore(st, key+"#ref", base, idx, "Int", i.Ref)
		return
	case *types.Array:
		av, ok := v.(ArrayV)
		if !ok {
			x.fail("store of whole array value unsupported (%T)", v)
		}
		for i, e := range av.Elems {
			x.storeAt(st, u.Elem(), arrayElemKey(key), base, append(append([]string{}, idx...), bvLit(uint64(i), 64)), e)
		}
		return
	}
	x.leafStore(st, key, base, idx, sortOf(t), x.term(v))
}

func (x *Exec) asSlice(v Value, elem types.Type) SliceV {
	switch s := v.(type) {
	case SliceV:
		return s
	case Scalar:
		if s.T == "nil" {
			return SliceV{Base: "0", Off: bvLit(0, 64), Len: bvLit(0, 64), Cap: bvLit(0, 64), Elem: elem, New: true}
		}
	}
	x.fail("expected slice, got %T", v)
	return SliceV{}
}

func (x *Exec) asIface(v Value, t types.Type) Iface {
	switch s := v.(type) {
	case Iface:
		return s
	case Scalar:
		if s.T == "nil" {
			return Iface{Tag: "0", Ref: "0", Typ: t}
		}
	}
	x.fail("expected interface, got %T", v)
	return Iface{}
}

// term converts a scalar-like value to its SMT term.
func (x *Exec) term(v Value) string {
	switch s := v.(type) {
	case Scalar:
		if s.T == "nil" {
			return "0"
		}
		return s.T
	case Ptr:
		if len(s.Path) != 0 {
			x.fail("interior pointer escapes to the heap or a contract (unsupported)")
		}
		return s.Base
	case FuncV:
		if s.Name == "" {
			return "0"
		}
		return s.Name
	case Closure:
		return x.fnID(closureName(s.Fn))
	case GhostArr:
		return s.T
	}
	x.fail("expected scalar, got %T", v)
	return ""
}

// ---------- value construction ----------

func (x *Exec) typeTag(t types.Type) string {
	k := typeKey(t)
	if n, ok := x.P.typeTags[k]; ok {
		return strconv.Itoa(n)
	}
	n := len(x.P.typeTags) + 1
	x.P.typeTags[k] = n
	return strconv.Itoa(n)
}

func (x *Exec) zeroValue(t types.Type) Value {
	t = types.Unalias(t)
	switch u := t.Underlying().(type) {
	case *types.Struct:
		r := Record{Typ: t}
		for i := 0; i < u.NumFields(); i++ {
			r.Fields = append(r.Fields, x.zeroValue(u.Field(i).Type()))
		}
		return r
	case *types.Slice:
		return SliceV{Base: "0", Off: bvLit(0, 64), Len: bvLit(0, 64), Cap: bvLit(0, 64), Elem: u.Elem(), New: true}
	case *types.Interface:
		return Iface{Tag: "0", Ref: "0", Typ: t}
	case *types.Pointer:
		return Ptr{Base: "0", Root: u.Elem()}
	case *types.Map, *types.Chan:
		return Scalar{T: "0", Typ: t}
	case *types.Signature:
		return FuncV{Typ: t}
	case *types.Tuple:
		tv := Tuple{}
		for i := 0; i < u.Len(); i++ {
			tv.Vals = append(tv.Vals, x.zeroValue(u.At(i).Type()))
		}
		return tv
	case *types.Array:
		if u.Len() > 32 {
			x.fail("zero value of array type %s unsupported", typeKey(t))
		}
		av := ArrayV{Typ: t}
		for i := int64(0); i < u.Len(); i++ {
			av.Elems = append(av.Elems, x.zeroValue(u.Elem()))
		}
		return av
	}
	if w, _, ok := bvWidth(t); ok {
		return Scalar{T: bvLit(0, w), Typ: t}
	}
	if isBool(t) {
		return Scalar{T: "false", Typ: t}
	}
	if isString(t) {
		return Scalar{T: x.strLit(""), Typ: t}
	}
	if isFloat(t) {
		return Scalar{T: "0.0", Typ: t}
	}
	return Scalar{T: "0", Typ: t}
}

// freshValue builds an unconstrained value of type t (with well-formedness
// assumptions relative to the state's frontier).
func (x *Exec) freshValue(t types.Type, hint string, st *State) Value {
	t = types.Unalias(t)
	switch u := t.Underlying().(type) {
	case *types.Struct:
		r := Record{Typ: t}
		for i := 0; i < u.NumFields(); i++ {
			r.Fields = append(r.Fields, x.freshValue(u.Field(i).Type(), hint+"."+u.Field(i).Name(), st))
		}
		return r
	case *types.Slice:
		s := SliceV{
			Base: x.em.freshConst(hint+".base", "Int"),
			Off:  x.em.freshConst(hint+".off", "(_ BitVec 64)"),
			Len:  x.em.freshConst(hint+".len", "(_ BitVec 64)"),
			Cap:  x.em.freshConst(hint+".cap", "(_ BitVec 64)"),
			Elem: u.Elem(),
		}
		x.assumeSliceWf(s, st)
		return s
	case *types.Interface:
		i := Iface{Tag: x.em.freshConst(hint+".tag", "Int"), Ref: x.em.freshConst(hint+".ref", "Int"), Typ: t}
		x.em.assume(fmt.Sprintf("(and (<= 0 %s) (<= 0 %s) (<= %s %s) (=> (= %s 0) (= %s 0)))", i.Tag, i.Ref, i.Ref, st.Frontier, i.Tag, i.Ref))
		return i
	case *types.Pointer:
		c := x.em.freshConst(hint, "Int")
		x.em.assume(fmt.Sprintf("(and (<= 0 %s) (<= %s %s))", c, c, st.Frontier))
		return Ptr{Base: c, Root: u.Elem()}
	case *types.Map, *types.Chan:
		c := x.em.freshConst(hint, "Int")
		x.em.assume(fmt.Sprintf("(and (<= 0 %s) (<= %s %s))", c, c, st.Frontier))
		return Scalar{T: c, Typ: t}
	case *types.Signature:
		return FuncV{Name: x.em.freshConst(hint, "Int"), Typ: t}
	case *types.Tuple:
		tv := Tuple{}
		for i := 0; i < u.Len(); i++ {
			tv.Vals = append(tv.Vals, x.freshValue(u.At(i).Type(), fmt.Sprintf("%s.%d", hint, i), st))
		}
		return tv
	case *types.Array:
		if u.Len() > 32 {
			x.fail("fresh value of array type %s unsupported", typeKey(t))
		}
		av := ArrayV{Typ: t}
		for i := int64(0); i < u.Len(); i++ {
			av.Elems = append(av.Elems, x.freshValue(u.Elem(), fmt.Sprintf("%s.%d", hint, i), st))
		}
		return av
	}
	return Scalar{T: x.em.freshConst(hint, sortOf(t)), Typ: t}
}

const maxCap = "#x0000010000000000" // 2^40: no Go slice in a 64-bit process is larger

func (x *Exec) assumeSliceWf(s SliceV, st *State) {
	x.em.assume(fmt.Sprintf("(and (<= 0 %s) (<= %s %s) (bvule %s %s) (bvule %s %s) (bvule %s %s) (=> (= %s 0) (= %s #x0000000000000000)))",
		s.Base, s.Base, st.Frontier, s.Len, s.Cap, s.Cap, maxCap, s.Off, maxCap, s.Base, s.Cap))
}

func (x *Exec) strLit(s string) string {
	if n, ok := x.strLits[s]; ok {
		return n
	}
	name := fmt.Sprintf("str.%d", len(x.strLits))
	x.strLits[s] = name
	x.em.declare(name, "Str")
	x.em.items = append(x.em.items, item{glob: true, line: fmt.Sprintf("(assert (= (slen %s) %s))", name, bvLit(uint64(len(s)), 64))})
	n := len(s)
	if n > 64 {
		n = 64 // long literals (log formats) are only compared by identity
	}
	for i := 0; i < n; i++ {
		x.em.items = append(x.em.items, item{glob: true, line: fmt.Sprintf("(assert (= (select (sarr %s) %s) %s))", name, bvLit(uint64(i), 64), bvLit(uint64(s[i]), 8))})
	}
	return name
}

func (x *Exec) constValue(c *ssa.Const) Value {
	t := c.Type()
	if c.Value == nil {
		if _, ok := t.Underlying().(*types.Basic); ok && !isString(t) {
			return x.zeroValue(t)
		}
		return x.zeroValue(t)
	}
	switch c.Value.Kind() {
	case constant.Bool:
		if constant.BoolVal(c.Value) {
			return Scalar{T: "true", Typ: t}
		}
		return Scalar{T: "false", Typ: t}
	case constant.String:
		return Scalar{T: x.strLit(constant.StringVal(c.Value)), Typ: t}
	case constant.Int:
		w, _, ok := bvWidth(t)
		if !ok {
			if isFloat(t) {
				return Scalar{T: c.Value.ExactString() + ".0", Typ: t}
			}
			x.fail("int constant of type %s", typeKey(t))
		}
		if u, ok := constant.Uint64Val(c.Value); ok {
			return Scalar{T: bvLit(u, w), Typ: t}
		}
		if i, ok := constant.Int64Val(c.Value); ok {
			return Scalar{T: bvLit(uint64(i), w), Typ: t}
		}
		x.fail("constant out of range")
	case constant.Float:
		f, _ := constant.Float64Val(c.Value)
		return Scalar{T: strconv.FormatFloat(f, 'f', -1, 64), Typ: t}
	}
	x.fail("unsupported constant %v", c)
	return nil
}

func (x *Exec) value(fr *Frame, v ssa.Value) Value {
	switch c := v.(type) {
	case *ssa.Const:
		return x.constValue(c)
	case *ssa.Global:
		return Ptr{Base: "1", Root: globalRoot{c}.typ(), Path: nil, Fresh: true}
	case *ssa.Function:
		return FuncV{Fn: c, Typ: c.Type()}
	case *ssa.Builtin:
		return FuncV{Name: "builtin:" + c.Name(), Typ: c.Type()}
	case *ssa.FreeVar:
		for i, fv := range fr.fn.FreeVars {
			if fv == c {
				return fr.free[i]
			}
		}
	}
	if val, ok := fr.vals[v]; ok {
		return val
	}
	x.fail("value %s (%T) not computed in %s", v.Name(), v, fr.fn.Name())
	return nil
}

// Globals are modelled as single-object classes: a named struct-like root
// whose key is "G:pkg.Name".
type globalRoot struct{ g *ssa.Global }

func (g globalRoot) typ() types.Type {
	// the pointee type with a distinct root key is obtained by wrapping in a
	// named type; we create a synthetic named type per global.
	name := "G_" + g.g.Pkg.Pkg.Name() + "_" + g.g.Name()
	if t, ok := globalTypes[name]; ok {
		return t
	}
	el := g.g.Type().(*types.Pointer).Elem()
	st := types.NewStruct([]*types.Var{types.NewField(token.NoPos, nil, "v", el, false)}, nil)
	tn := types.NewTypeName(token.NoPos, types.NewPackage("global", "global"), name, nil)
	nt := types.NewNamed(tn, st, nil)
	globalTypes[name] = nt
	return nt
}

var globalTypes = map[string]types.Type{}

// ---------- merging ----------

func (x *Exec) iteValue(c string, a, b Value) Value {
	switch av := a.(type) {
	case Scalar:
		bv, ok := b.(Scalar)
		if !ok {
			x.fail("ite: scalar vs %T", b)
		}
		at, bt := av.T, bv.T
		if at == "nil" {
			at = "0"
		}
		if bt == "nil" {
			bt = "0"
		}
		return Scalar{T: ite(c, at, bt), Typ: av.Typ}
	case Ptr:
		bv, ok := b.(Ptr)
		if !ok {
			if s, ok2 := b.(Scalar); ok2 && s.T == "nil" {
				bv = Ptr{Base: "0", Root: av.Root}
			} else {
				x.fail("ite: ptr vs %T", b)
			}
		}
		if len(av.Path) != len(bv.Path) {
			if av.Base == "0" && len(av.Path) == 0 {
				av.Path = bv.Path
			} else if bv.Base == "0" && len(bv.Path) == 0 {
				bv.Path = av.Path
			} else {
				x.fail("ite: pointers with different interior paths")
			}
		}
		r := Ptr{Base: ite(c, av.Base, bv.Base), Root: av.Root, Fresh: av.Fresh && bv.Fresh}
		if av.Base == "0" && len(av.Path) == 0 {
			r.Root = bv.Root
		}
		for i := range av.Path {
			if av.Path[i].Field != bv.Path[i].Field {
				x.fail("ite: pointers with different field paths")
			}
			r.Path = append(r.Path, Step{Field: av.Path[i].Field, Idx: ite(c, av.Path[i].Idx, bv.Path[i].Idx)})
		}
		return r
	case Record:
		bv, ok := b.(Record)
		if !ok {
			x.fail("ite: record vs %T", b)
		}
		r := Record{Typ: av.Typ}
		for i := range av.Fields {
			r.Fields = append(r.Fields, x.iteValue(c, av.Fields[i], bv.Fields[i]))
		}
		return r
	case SliceV:
		bv := x.asSlice(b, av.Elem)
		r := SliceV{Base: ite(c, av.Base, bv.Base), Off: ite(c, av.Off, bv.Off), Len: ite(c, av.Len, bv.Len), Cap: ite(c, av.Cap, bv.Cap), Elem: av.Elem}
		if av.Own != nil && bv.Own != nil && av.Own.Key == bv.Own.Key && av.Own.Base == bv.Own.Base {
			r.Own = av.Own
		}
		r.New = av.New && bv.New
		ar, br := x.regionOf(av).Region, x.regionOf(bv).Region
		ao, bo := x.regionOf(av).Owner, x.regionOf(bv).Owner
		switch {
		case av.Base == "0":
			r.Owner = bo
		case bv.Base == "0":
			r.Owner = ao
		default:
			r.Owner = ite(c, ao, bo)
		}
		switch {
		case ar == br:
			r.Region = ar
		case av.Base == "0":
			r.Region = br
		case bv.Base == "0":
			r.Region = ar
		default:
			x.fail("merge of slices from different regions (%q, %q)", ar, br)
		}
		return r
	case Iface:
		bv := x.asIface(b, av.Typ)
		r := Iface{Tag: ite(c, av.Tag, bv.Tag), Ref: ite(c, av.Ref, bv.Ref), Typ: av.Typ}
		return r
	case ArrayV:
		bv, ok := b.(ArrayV)
		if !ok {
			x.fail("ite: array vs %T", b)
		}
		r := ArrayV{Typ: av.Typ}
		for i := range av.Elems {
			r.Elems = append(r.Elems, x.iteValue(c, av.Elems[i], bv.Elems[i]))
		}
		return r
	case Tuple:
		bv := b.(Tuple)
		r := Tuple{}
		for i := range av.Vals {
			r.Vals = append(r.Vals, x.iteValue(c, av.Vals[i], bv.Vals[i]))
		}
		return r
	case FuncV:
		if bv, ok := b.(FuncV); ok && bv.Fn == av.Fn && bv.Name == av.Name {
			return av
		}
		return FuncV{Name: x.em.freshConst("fn", "Int"), Typ: av.Typ}
	case Closure:
		if bv, ok := b.(Closure); ok && bv.Fn == av.Fn {
			return av
		}
		x.fail("ite over distinct closures")
	case GhostArr:
		bv := b.(GhostArr)
		return GhostArr{T: ite(c, av.T, bv.T), Sort: av.Sort, Typ: av.Typ}
	case nil:
		return b
	}
	x.fail("ite: unsupported %T", a)
	return nil
}

type edgeIn struct {
	cond string
	st   *State
	pred *ssa.BasicBlock
}

func (x *Exec) merge(ins []edgeIn) *State {
	if len(ins) == 1 {
		st := ins[0].st.clone()
		st.Reach = ins[0].cond
		return st
	}
	var conds []string
	for _, in := range ins {
		conds = append(conds, in.cond)
	}
	out := &State{Heap: map[string]string{}}
	out.Reach = x.em.define("R", "Bool", or(conds...))
	sameEpoch := true
	for _, in := range ins[1:] {
		if in.st.Epoch != ins[0].st.Epoch {
			sameEpoch = false
		}
	}
	out.Epoch = ins[0].st.Epoch
	if !sameEpoch {
		x.P.epoch++
		out.Epoch = x.P.epoch
	}
	keys := map[string]bool{}
	for _, in := range ins {
		for k := range in.st.Heap {
			keys[k] = true
		}
	}
	ks := make([]string, 0, len(keys))
	for k := range keys {
		ks = append(ks, k)
	}
	sort.Strings(ks)
	for _, k := range ks {
		l := x.leaves[k]
		var ts []string
		for _, in := range ins {
			ts = append(ts, x.heapGet(in.st, l))
		}
		t := ts[len(ts)-1]
		for i := len(ts) - 2; i >= 0; i-- {
			t = ite(ins[i].cond, ts[i], t)
		}
		out.Heap[k] = x.em.define("H."+k, l.ArraySort(), t)
	}
	f := ins[len(ins)-1].st.Frontier
	for i := len(ins) - 2; i >= 0; i-- {
		f = ite(ins[i].cond, ins[i].st.Frontier, f)
	}
	out.Frontier = x.em.define("F", "Int", f)
	return out
}

// ---------- CFG helpers ----------

func rpo(fn *ssa.Function) []*ssa.BasicBlock {
	seen := map[int]bool{}
	var post []*ssa.BasicBlock
	var dfs func(b *ssa.BasicBlock)
	dfs = func(b *ssa.BasicBlock) {
		seen[b.Index] = true
		for _, s := range b.Succs {
			if !seen[s.Index] {
				dfs(s)
			}
		}
		post = append(post, b)
	}
	dfs(fn.Blocks[0])
	for i, j := 0, len(post)-1; i < j; i, j = i+1, j-1 {
		post[i], post[j] = post[j], post[i]
	}
	return post
}

func isBackEdge(from, to *ssa.BasicBlock) bool { return to.Dominates(from) }

func findLoops(fn *ssa.Function) map[int]*loopInfo {
	loops := map[int]*loopInfo{}
	reach := map[int]bool{}
	for _, b := range rpo(fn) {
		reach[b.Index] = true
	}
	for _, b := range fn.Blocks {
		if !reach[b.Index] {
			continue
		}
		for _, s := range b.Succs {
			if isBackEdge(b, s) {
				l := loops[s.Index]
				if l == nil {
					l = &loopInfo{header: s, body: map[int]bool{s.Index: true}, backPred: map[int]bool{}}
					loops[s.Index] = l
				}
				l.backPred[b.Index] = true
				// natural loop: everything that reaches b without passing the header
				var work []*ssa.BasicBlock
				if !l.body[b.Index] {
					l.body[b.Index] = true
					work = append(work, b)
				}
				for len(work) > 0 {
					n := work[len(work)-1]
					work = work[:len(work)-1]
					for _, p := range n.Preds {
						if reach[p.Index] && !l.body[p.Index] {
							l.body[p.Index] = true
							work = append(work, p)
						}
					}
				}
			}
		}
	}
	var hs []int
	for h := range loops {
		hs = append(hs, h)
	}
	sort.Ints(hs)
	for i, h := range hs {
		loops[h].ordinal = i
	}
	return loops
}

// ---------- running a function body ----------

func (x *Exec) newFrame(fn *ssa.Function, spec *FuncSpec, prefix string) *Frame {
	fr := &Frame{fn: fn, spec: spec, vals: map[ssa.Value]Value{}, prefix: prefix,
		blockOut: map[int]*State{}, edge: map[[2]int]string{}, occ: map[string]int{},
		names: map[string][]ssa.Value{}, cbSpecs: map[string]*FuncSpec{}, nilok: map[string]bool{}, constRefs: map[string][]*ssa.DebugRef{}, refs: map[string][]*ssa.DebugRef{}, phis: map[string][]*ssa.Phi{}, threaded: map[[2]int][]edgeIn{}}
	fr.loops = findLoops(fn)
	for _, l := range fr.loops {
		if spec != nil {
			l.spec = spec.Loops[l.ordinal]
		}
	}
	if spec != nil {
		for n := range spec.Loops {
			if n >= len(fr.loops) {
				// a loop the contract has invariants for is not in the code (any more): its clauses would be checked nowhere
				x.fail("contract of %s has clauses for loop %d, but the function has %d loop(s)", x.P.funcKey(fn), n, len(fr.loops))
			}
		}
	}
	for _, b := range fn.Blocks {
		for _, in := range b.Instrs {
			if d, ok := in.(*ssa.DebugRef); ok && !d.IsAddr {
				if id, ok := d.Expr.(interface{ String() string }); ok {
					_ = id
				}
				if obj := d.Object(); obj != nil {
					fr.names[obj.Name()] = append(fr.names[obj.Name()], d.X)
					fr.refs[obj.Name()] = append(fr.refs[obj.Name()], d)
					if _, isConst := d.X.(*ssa.Const); isConst {
						fr.constRefs[obj.Name()] = append(fr.constRefs[obj.Name()], d)
					}
				}
			}
			if a, ok := in.(*ssa.Alloc); ok && a.Comment != "" {
				fr.names["&"+a.Comment] = append(fr.names["&"+a.Comment], a)
			}
			if ph, ok := in.(*ssa.Phi); ok && ph.Comment != "" {
				fr.phis[ph.Comment] = append(fr.phis[ph.Comment], ph)
			}
		}
	}
	return fr
}

func (x *Exec) runBody(fr *Frame, st0 *State) (*State, Value) {
	return x.runBodyWith(fr, st0, nil)
}

// runBodyWith runs the body; perRet (if any) sees every return path before
// the paths are merged, so that exit obligations can be checked per path.
func (x *Exec) runBodyWith(fr *Frame, st0 *State, perRet func(k, n int, r *retInfo)) (*State, Value) {
	x.runRegion(fr, rpo(fr.fn), fr.fn.Blocks[0], st0, nil)
	if perRet != nil {
		for k := range fr.rets {
			perRet(k, len(fr.rets), &fr.rets[k])
		}
	}
	if len(fr.rets) == 0 {
		// function never returns normally
		st := st0.clone()
		st.Reach = "false"
		return st, x.zeroResults(fr.fn)
	}
	var ins []edgeIn
	for _, r := range fr.rets {
		ins = append(ins, edgeIn{cond: r.st.Reach, st: r.st})
	}
	out := x.merge(ins)
	val := fr.rets[len(fr.rets)-1].val
	for i := len(fr.rets) - 2; i >= 0; i-- {
		val = x.iteValue(fr.rets[i].st.Reach, fr.rets[i].val, val)
	}
	return out, val
}

// threadJumps: if block b consists only of phis and "if flag" where flag is a
// phi of b, each incoming edge that sets the flag to a constant goes straight
// to the corresponding successor: the successors then do not have to merge
// the heap states of edges that can never reach them.
func (x *Exec) threadJumps(fr *Frame, b *ssa.BasicBlock, ins []edgeIn) {
	if os.Getenv("GOVC_NOTHREAD") != "" || len(ins) < 2 || fr.loops[b.Index] != nil || len(b.Succs) != 2 || b.Succs[0] == b.Succs[1] {
		return
	}
	var iff *ssa.If
	for _, in := range b.Instrs {
		switch i := in.(type) {
		case *ssa.Phi, *ssa.DebugRef:
		case *ssa.If:
			iff = i
		default:
			return
		}
	}
	if iff == nil {
		return
	}
	phi, ok := iff.Cond.(*ssa.Phi)
	if !ok || phi.Block() != b {
		return
	}
	var tru, fls []edgeIn
	for _, in := range ins {
		idx := -1
		for j, p := range b.Preds {
			if p == in.pred {
				idx = j
			}
		}
		if idx < 0 {
			return
		}
		if c, ok := phi.Edges[idx].(*ssa.Const); ok && c.Value != nil {
			if c.Value.String() == "true" {
				tru = append(tru, in)
			} else {
				fls = append(fls, in)
			}
			continue
		}
		v := x.term(x.value(fr, phi.Edges[idx]))
		tru = append(tru, edgeIn{cond: x.em.define("E", "Bool", and(in.cond, v)), st: in.st, pred: in.pred})
		fls = append(fls, edgeIn{cond: x.em.define("E", "Bool", and(in.cond, not(v))), st: in.st, pred: in.pred})
	}
	fr.threaded[[2]int{b.Index, b.Succs[0].Index}] = tru
	fr.threaded[[2]int{b.Index, b.Succs[1].Index}] = fls
}

func trivialReturn(b *ssa.BasicBlock) bool {
	for _, in := range b.Instrs {
		switch in.(type) {
		case *ssa.Phi, *ssa.DebugRef, *ssa.Return:
		default:
			return false
		}
	}
	_, ok := b.Instrs[len(b.Instrs)-1].(*ssa.Return)
	return ok
}

func (x *Exec) zeroResults(fn *ssa.Function) Value {
	res := fn.Signature.Results()
	if res.Len() == 0 {
		return nil
	}
	if res.Len() == 1 {
		return x.zeroValue(res.At(0).Type())
	}
	return x.zeroValue(res)
}

// runRegion executes blocks (in reverse postorder) starting at start with st0.
// only restricts execution to a loop body during write discovery.
func (x *Exec) runRegion(fr *Frame, order []*ssa.BasicBlock, start *ssa.BasicBlock, st0 *State, only map[int]bool) {
	for _, b := range order {
		if only != nil && !only[b.Index] {
			continue
		}
		if fr.isTop {
			x.em.setTag(b.Index)
		}
		var st *State
		var ins []edgeIn
		if b == start {
			st = st0
		} else {
			for _, p := range b.Preds {
				if isBackEdge(p, b) {
					continue
				}
				if only != nil && !only[p.Index] {
					continue
				}
				if th, ok := fr.threaded[[2]int{p.Index, b.Index}]; ok {
					// jump threading: p only tests a flag that each of its own
					// predecessors sets to a constant; b inherits those edges directly
					for _, t := range th {
						ins = append(ins, edgeIn{cond: t.cond, st: t.st, pred: p})
					}
					continue
				}
				ps, ok := fr.blockOut[p.Index]
				if !ok {
					continue
				}
				c, ok := fr.edge[[2]int{p.Index, b.Index}]
				if !ok {
					continue
				}
				ins = append(ins, edgeIn{cond: c, st: ps, pred: p})
			}
			if len(ins) == 0 {
				continue
			}
			if only == nil && x.discover == 0 && fr.isTop && len(ins) > 1 && len(ins) <= 8 && fr.loops[b.Index] == nil && trivialReturn(b) {
				// tail duplication: one return path per incoming edge (no merge)
				for _, in := range ins {
					pst := in.st.clone()
					pst.Reach = in.cond
					for _, instr := range b.Instrs {
						switch i := instr.(type) {
						case *ssa.Phi:
							fr.vals[i] = x.phiValue(fr, i, []edgeIn{in})
						case *ssa.Return:
							x.step(fr, pst, i)
						}
					}
				}
				continue
			}
			st = x.merge(ins)
		}
		if l := fr.loops[b.Index]; l != nil && !(b == start && only != nil) {
			st = x.loopHeader(fr, l, st, ins, order)
		} else if b != start || only == nil {
			for _, in := range b.Instrs {
				phi, ok := in.(*ssa.Phi)
				if !ok {
					break
				}
				fr.vals[phi] = x.phiValue(fr, phi, ins)
			}
		}
		for _, in := range b.Instrs {
			if _, ok := in.(*ssa.Phi); ok {
				continue
			}
			x.step(fr, st, in)
		}
		fr.blockOut[b.Index] = st
		x.threadJumps(fr, b, ins)
		// back edges
		if x.discover == 0 {
			for _, s := range b.Succs {
				if l := fr.loops[s.Index]; l != nil && l.backPred[b.Index] && isBackEdge(b, s) {
					x.backEdge(fr, l, b, st)
				}
			}
		}
	}
}

func (x *Exec) phiValue(fr *Frame, phi *ssa.Phi, ins []edgeIn) Value {
	b := phi.Block()
	var val Value
	first := true
	for i := len(ins) - 1; i >= 0; i-- {
		idx := -1
		for j, p := range b.Preds {
			if p == ins[i].pred {
				idx = j
			}
		}
		if idx < 0 {
			x.fail("phi predecessor not found")
		}
		v := x.coerce(x.value(fr, phi.Edges[idx]), phi.Type())
		if first {
			val = v
			first = false
		} else {
			val = x.iteValue(ins[i].cond, v, val)
		}
	}
	return x.nameValue(val, phi.Comment)
}

// coerce turns an untyped nil into the zero value of t.
func (x *Exec) coerce(v Value, t types.Type) Value {
	if s, ok := v.(Scalar); ok && s.T == "nil" {
		return x.zeroValue(t)
	}
	return v
}

// nameValue abbreviates large scalar terms.
func (x *Exec) nameValue(v Value, hint string) Value {
	if hint == "" {
		hint = "v"
	}
	switch s := v.(type) {
	case Scalar:
		if len(s.T) > 40 {
			s.T = x.em.define(hint, sortOf(s.Typ), s.T)
		}
		return s
	case Ptr:
		if len(s.Base) > 40 {
			s.Base = x.em.define(hint, "Int", s.Base)
		}
		return s
	case SliceV:
		if len(s.Base) > 40 {
			s.Base = x.em.define(hint+".base", "Int", s.Base)
		}
		if len(s.Off) > 40 {
			s.Off = x.em.define(hint+".off", "(_ BitVec 64)", s.Off)
		}
		if len(s.Len) > 40 {
			s.Len = x.em.define(hint+".len", "(_ BitVec 64)", s.Len)
		}
		if len(s.Cap) > 40 {
			s.Cap = x.em.define(hint+".cap", "(_ BitVec 64)", s.Cap)
		}
		return s
	case Record:
		for i := range s.Fields {
			s.Fields[i] = x.nameValue(s.Fields[i], hint)
		}
		return s
	}
	return v
}

// onlyNewWrites: the leaf was written only at objects the function allocated
// itself, so what it holds for previously existing objects is unchanged.
func onlyNewWrites(ws *WriteSet) bool {
	if ws.Whole {
		return false
	}
	for _, b := range ws.Bases {
		if !ws.New[b] {
			return false
		}
	}
	return true
}

var freshNameRe = regexp.MustCompile(`!([0-9]+)`)
var nameTokRe = regexp.MustCompile(`[A-Za-z_$][A-Za-z0-9_.$#@\[\]-]*(![0-9]+)?`)

// loopInvariant decides whether a term computed inside a loop body denotes
// the same value in every iteration: after expanding the definitions made
// inside the body it must mention only names that existed at loop entry, and
// every heap array it reads must be the loop-entry version of a leaf that the
// body does not write.
func (x *Exec) loopInvariant(term string, mark int, stEntry *State, disc map[string]*WriteSet) (string, bool) {
	expanded := term
	for round := 0; round < 12; round++ {
		changed := false
		bad := false
		expanded = nameTokRe.ReplaceAllStringFunc(expanded, func(tok string) string {
			m := freshNameRe.FindStringSubmatch(tok)
			if m == nil {
				return tok
			}
			k, _ := strconv.Atoi(m[1])
			if k <= mark {
				return tok
			}
			if d, ok := x.em.defs[tok]; ok {
				changed = true
				return d
			}
			bad = true
			return tok
		})
		if bad {
			return "", false
		}
		if !changed {
			break
		}
		if len(expanded) > 4000 {
			return "", false
		}
	}
	if definedAfter(expanded, mark) {
		return "", false
	}
	// heap versions read by the term
	rev := map[string]string{}
	for k, n := range stEntry.Heap {
		rev[n] = k
	}
	for _, tok := range nameTokRe.FindAllString(expanded, -1) {
		if !(strings.HasPrefix(tok, "L.") || strings.HasPrefix(tok, "H")) {
			continue
		}
		key, cur := rev[tok]
		if !cur {
			// an initial version that no state has materialised yet, or an older
			// version: accept initial versions of leaves the body does not write
			if strings.HasPrefix(tok, "L.") {
				found := false
				for k, ws := range disc {
					if strings.HasPrefix(tok, "L."+sanitize(k)+".e") && !onlyNewWrites(ws) {
						found = true
					}
				}
				if found {
					return "", false
				}
				continue
			}
			return "", false
		}
		if ws, written := disc[key]; written && !onlyNewWrites(ws) {
			return "", false
		}
	}
	return expanded, true
}

// definedAfter reports whether term mentions a name created after counter n.
func definedAfter(term string, n int) bool {
	for _, m := range freshNameRe.FindAllStringSubmatch(term, -1) {
		k, _ := strconv.Atoi(m[1])
		if k > n {
			return true
		}
	}
	return false
}

func (x *Exec) loopHeader(fr *Frame, l *loopInfo, stEntry *State, ins []edgeIn, order []*ssa.BasicBlock) *State {
	b := l.header
	// entry values of the header phis
	var phis []*ssa.Phi
	entryVals := map[*ssa.Phi]Value{}
	for _, in := range b.Instrs {
		phi, ok := in.(*ssa.Phi)
		if !ok {
			break
		}
		phis = append(phis, phi)
		entryVals[phi] = x.phiValue(fr, phi, ins)
	}
	// 1. discovery pass: which leaves does one iteration write? Slice-typed
	// loop variables that start out as function-allocated (or nil) arrays and
	// stay so across an iteration keep that status (optimistic fixpoint).
	phiNew := map[*ssa.Phi]bool{}
	for _, phi := range phis {
		if sv, ok := entryVals[phi].(SliceV); ok && sv.New {
			phiNew[phi] = true
		}
	}
	backIdx := []int{}
	for j, p := range b.Preds {
		if l.backPred[p.Index] && isBackEdge(p, b) {
			backIdx = append(backIdx, j)
		}
	}
	var disc map[string]*WriteSet
	mark := x.em.n
	for round := 0; round < 4; round++ {
		mark = x.em.n
		savedVals := fr.vals
		savedOut, savedEdge, savedWritten, savedRets := fr.blockOut, fr.edge, x.written, fr.rets
		savedDefers := fr.defers
		savedOcc := make(map[string]int, len(fr.occ))
		for k, v := range fr.occ {
			savedOcc[k] = v
		}
		fr.vals = make(map[ssa.Value]Value, len(savedVals))
		for k, v := range savedVals {
			fr.vals[k] = v
		}
		for phi, v := range entryVals {
			// loop-carried values are arbitrary in a later iteration: fresh names
			// (created after mark) so that nothing derived from them is taken
			// for loop-invariant
			fv := x.freshValue(phi.Type(), "disc."+phi.Comment, stEntry)
			if sv, ok := v.(SliceV); ok {
				nv := fv.(SliceV)
				nv.New = phiNew[phi]
				nv.Region = x.regionOf(sv).Region
				nv.Owner = x.regionOf(sv).Owner
				fv = nv
			}
			if pv, ok := v.(Ptr); ok {
				if np, ok := fv.(Ptr); ok {
					np.Root = pv.Root
					fv = np
				}
			}
			if _, ok := v.(Closure); ok {
				fv = v
			}
			if _, ok := v.(FuncV); ok {
				fv = v
			}
			fr.vals[phi] = fv
		}
		fr.blockOut = map[int]*State{}
		fr.edge = map[[2]int]string{}
		x.written = map[string]*WriteSet{}
		wasDiscard := x.em.discard
		x.em.discard = true
		x.discover++
		x.runRegion(fr, order, b, stEntry.clone(), l.body)
		x.discover--
		x.em.discard = wasDiscard
		disc = x.written
		changed := false
		for _, phi := range phis {
			if !phiNew[phi] {
				continue
			}
			for _, j := range backIdx {
				if v, ok := fr.vals[phi.Edges[j]]; ok {
					if sv, ok := v.(SliceV); !ok || !sv.New {
						phiNew[phi] = false
						changed = true
					}
				} else if _, isConst := phi.Edges[j].(*ssa.Const); !isConst {
					phiNew[phi] = false
					changed = true
				}
			}
		}
		fr.vals, fr.blockOut, fr.edge, x.written, fr.rets, fr.defers = savedVals, savedOut, savedEdge, savedWritten, savedRets, savedDefers
		fr.occ = savedOcc
		if !changed {
			break
		}
	}

	// 2. invariant on entry
	if x.discover == 0 && l.spec != nil {
		env := x.newEnv(fr, stEntry, b)
		for phi, v := range entryVals {
			if phi.Comment != "" {
				env.vars[phi.Comment] = v
			}
		}
		env.loopOld, env.loopVars = stEntry, env.vars
		for _, c := range l.spec.Invs {
			p, alt := x.evalBoolAlt(env, c.Expr)
			x.obligeAlt(fr, stEntry, fmt.Sprintf("loop%d/inv-entry:%s", l.ordinal, c.Label), "loop-invariant", p, alt, c)
		}
	}
	// 3. havoc
	st := stEntry.clone()
	var keys []string
	for k := range disc {
		keys = append(keys, k)
	}
	sort.Strings(keys)
	for _, k := range keys {
		ws := disc[k]
		lf := x.leaves[k]
		whole := ws.Whole
		innerNew := false // objects allocated by this function were written at loop-varying addresses
		bound := stEntry.Frontier
		var outside []string
		for _, bt0 := range ws.Bases {
			bt := bt0
			if definedAfter(bt, mark) && !ws.New[bt] {
				if ex, ok := x.loopInvariant(bt, mark, stEntry, disc); ok {
					outside = append(outside, ex)
					continue
				}
			}
			if definedAfter(bt, mark) {
				if ws.New[bt] {
					innerNew = true
					if !strings.HasPrefix(bt, "new!") {
						// allocated by this function, but possibly before the loop
						bound = x.F0
					}
				} else {
					whole = true
				}
			} else {
				outside = append(outside, bt)
			}
		}
		if whole {
			st.Heap[k] = x.em.freshConst("Hh."+k, lf.ArraySort())
			x.recordWrite(k, "", true)
			continue
		}
		cur := x.heapGet(st, lf)
		for _, bt := range outside {
			f := x.em.freshConst("Hv."+k, lf.InnerSort(0))
			cur = "(store " + cur + " " + bt + " " + f + ")"
			saved := x.storeNew
			x.storeNew = ws.New[bt]
			x.recordWrite(k, bt, false)
			x.storeNew = saved
		}
		if innerNew {
			// only objects created by earlier iterations differ: everything that
			// existed at loop entry keeps its value
			cur = x.em.define("Hh."+k, lf.ArraySort(), cur)
			nw := x.em.freshConst("Hn."+k, lf.ArraySort())
			q := x.em.fresh("r")
			x.em.assume(fmt.Sprintf("(forall ((%s Int)) (! (=> (<= %s %s) (= (select %s %s) (select %s %s))) :pattern ((select %s %s))))",
				q, q, bound, nw, q, cur, q, nw, q))
			st.Heap[k] = nw
			saved := x.storeNew
			x.storeNew = true
			x.recordWrite(k, x.em.fresh("loopnew"), false)
			x.storeNew = saved
		} else {
			st.Heap[k] = x.em.define("Hh."+k, lf.ArraySort(), cur)
		}
	}
	nf := x.em.freshConst("F", "Int")
	x.em.assume(fmt.Sprintf("(<= %s %s)", st.Frontier, nf))
	st.Frontier = nf
	for _, phi := range phis {
		fr.vals[phi] = x.freshValue(phi.Type(), phi.Comment, st)
		if sv, ok := fr.vals[phi].(SliceV); ok {
			if ev, ok := entryVals[phi].(SliceV); ok {
				sv.Region = x.regionOf(ev).Region
				sv.Owner = x.regionOf(ev).Owner
				fr.vals[phi] = sv
			}
		}
		if phiNew[phi] {
			sv := fr.vals[phi].(SliceV)
			sv.New = true
			fr.vals[phi] = sv
			x.em.assume("(or (= " + sv.Base + " 0) (> " + sv.Base + " " + x.F0 + "))")
		}
		if phi.Comment == "rangeindex" {
			// range loops over slices: the hidden index starts at -1 and is bounded by len
			t := x.term(fr.vals[phi])
			x.em.assume("(and (bvsge " + t + " #xffffffffffffffff) (bvslt " + t + " " + maxCap + "))")
		}
	}
	// 4. assume invariant
	l.entrySt, l.entryVar = stEntry, map[string]Value{}
	for phi, v := range entryVals {
		if phi.Comment != "" {
			l.entryVar[phi.Comment] = v
		}
	}
	if l.spec != nil {
		env := x.newEnv(fr, st, b)
		for _, phi := range phis {
			if phi.Comment != "" {
				env.vars[phi.Comment] = fr.vals[phi]
			}
		}
		env.loopOld, env.loopVars = l.entrySt, l.entryVar
		l.headVar = map[string]Value{}
		for k, v := range env.vars {
			l.headVar[k] = v
		}
		for _, c := range l.spec.Invs {
			p := x.evalBool(env, c.Expr)
			x.em.assume(implies(st.Reach, p))
		}
		if l.spec.Decr != nil {
			v := x.evalExpr(env, l.spec.Decr.Expr)
			l.variant0 = x.em.define("variant", "(_ BitVec 64)", x.term(x.toBV64(v)))
		}
	}
	l.headSt = st.clone()
	return st
}

func (x *Exec) toBV64(v Value) Value {
	if u, ok := v.(UntypedInt); ok {
		n, _ := strconv.ParseUint(u.N, 10, 64)
		return Scalar{T: bvLit(n, 64), Typ: types.Typ[types.Uint64]}
	}
	return v
}

func (x *Exec) backEdge(fr *Frame, l *loopInfo, from *ssa.BasicBlock, st *State) {
	if l.spec == nil {
		return
	}
	c := fr.edge[[2]int{from.Index, l.header.Index}]
	est := st.clone()
	est.Reach = c
	env := x.newEnv(fr, est, from)
	idx := -1
	for j, p := range l.header.Preds {
		if p == from {
			idx = j
		}
	}
	for _, in := range l.header.Instrs {
		phi, ok := in.(*ssa.Phi)
		if !ok {
			break
		}
		if phi.Comment != "" {
			env.vars[phi.Comment] = x.coerce(x.value(fr, phi.Edges[idx]), phi.Type())
		}
	}
	env.loopOld, env.loopVars = l.entrySt, l.entryVar
	env.iterOld, env.iterVars = l.headSt, l.headVar
	for _, cl := range l.spec.Invs {
		p, alt := x.evalBoolAlt(env, cl.Expr)
		x.obligeAlt(fr, est, fmt.Sprintf("loop%d/inv-step:%s", l.ordinal, cl.Label), "loop-invariant", p, alt, cl)
	}
	for _, cl := range l.spec.Steps {
		// the step clause talks about the iteration that just ended: header variables
		// have their values of that iteration's start unless read through the back edge
		senv := *env
		senv.vars = map[string]Value{}
		for k, v := range env.vars {
			senv.vars[k] = v
		}
		p, alt := x.evalBoolAlt(&senv, cl.Expr)
		x.obligeAlt(fr, est, fmt.Sprintf("loop%d/step:%s", l.ordinal, cl.Label), "loop-invariant", p, alt, cl)
	}
	if l.spec.Decr != nil && l.variant0 != "" {
		v := x.term(x.toBV64(x.evalExpr(env, l.spec.Decr.Expr)))
		x.oblige(fr, est, fmt.Sprintf("loop%d/variant", l.ordinal), "variant", "(bvult "+v+" "+l.variant0+")", l.spec.Decr)
	}
}

// ---------- obligations ----------

func (x *Exec) pos(p token.Pos) string {
	if !p.IsValid() {
		return ""
	}
	ps := x.P.fset.Position(p)
	return fmt.Sprintf("%s:%d", strings.TrimPrefix(ps.Filename, "/repo/"), ps.Line)
}

func (x *Exec) oblige(fr *Frame, st *State, name, kind, prop string, c *Clause) {
	x.obligeAlt(fr, st, name, kind, prop, "", c)
}

func (x *Exec) obligeAlt(fr *Frame, st *State, name, kind, prop, alt string, c *Clause) {
	if x.pure > 0 || x.em.discard {
		return
	}
	o := &Obligation{Name: x.topKey + "/" + fr.prefix + name, Kind: kind, Guard: st.Reach, Prop: prop, AltProp: alt, FnName: x.topKey, Inputs: x.inputs}
	if c != nil {
		o.Props = append(o.Props, c.Props...)
		o.Src = c.Src
		o.Pos = fmt.Sprintf("%s:%d", c.File, c.Line)
	}
	// a clause's own tags add properties; every obligation of a function also
	// counts under each property the function's contract serves: the proof of
	// any later obligation assumes this one
	for _, dp := range x.defProps {
		if !contains(o.Props, dp) {
			o.Props = append(o.Props, dp)
		}
	}
	x.em.oblige(o)
}

// safety emits a no-panic obligation (bounds, nil, div0, ...).
func (x *Exec) safety(fr *Frame, st *State, kind, detail, prop string, pos token.Pos) {
	if x.pure > 0 || x.em.discard {
		return
	}
	if prop == "true" {
		return
	}
	if fr.spec != nil && fr.spec.NoSafety {
		x.em.assume(implies(st.Reach, prop))
		return
	}
	k := kind + ":" + detail
	fr.occ[k]++
	o := &Obligation{Name: fmt.Sprintf("%s/%s%s@%d", x.topKey, fr.prefix, k, fr.occ[k]), Kind: kind, Guard: st.Reach, Prop: prop,
		Pos: x.pos(pos), FnName: x.topKey, Inputs: x.inputs}
	o.Props = append(o.Props, x.defProps...)
	if x.inC11 {
		has := false
		for _, p := range o.Props {
			if p == "C11" {
				has = true
			}
		}
		if !has {
			o.Props = append(o.Props, "C11")
		}
	}
	x.em.oblige(o)
}

func (x *Exec) nilCheck(fr *Frame, st *State, p Ptr, pos token.Pos) {
	if p.Fresh || p.Base == "1" {
		return
	}
	if fr.nilok[p.Base] {
		return
	}
	fr.nilok[p.Base] = true
	x.safety(fr, st, "nil", "deref", "(not (= "+p.Base+" 0))", pos)
}

// arrayElemKey is the leaf holding the elements of an array stored at key: an
// array object (root) keeps them under its own key, an array inside a struct
// under key[] (as typeAtPath and elemLeaves name it).
func arrayElemKey(key string) string {
	if strings.HasPrefix(key, "[]") {
		return key
	}
	return key + "[]"
}

// closureName identifies a function value: a method value x.M (SSA: the
// synthetic wrapper T.M$bound) is named "Type.M", any other function by its
// full name.
func closureName(fn *ssa.Function) string {
	n := fn.Name()
	if strings.HasSuffix(n, "$bound") && fn.Signature != nil && len(fn.FreeVars) == 1 {
		t := fn.FreeVars[0].Type()
		if p, ok := t.(*types.Pointer); ok {
			t = p.Elem()
		}
		if nt, ok := t.(*types.Named); ok {
			return nt.Obj().Name() + "." + strings.TrimSuffix(n, "$bound")
		}
	}
	return fn.String()
}

// fnID interns a function name as a non-zero integer term (function values in
// the heap are integers; 0 is the nil function).
func (x *Exec) fnID(name string) string {
	if n, ok := x.P.typeTags["fn:"+name]; ok {
		return fmt.Sprintf("%d", 1000+n)
	}
	n := len(x.P.typeTags) + 1
	x.P.typeTags["fn:"+name] = n
	return fmt.Sprintf("%d", 1000+n)
}
