package main

// Contract expression language: Go expressions plus ==>, <==>, old(),
// forall/exists, spec functions (DESIGN.md §2.3).

import (
	"fmt"
	"strings"
	"unicode"
)

type Expr struct {
	Kind string // lit str ident sel index call unary binary quant star
	Op   string
	Name string
	X, Y *Expr
	Args []*Expr
	Vars []QVar
	Src  string
}

type QVar struct {
	Name string
	Type *Expr // type expression (ident or sel)
}

type tok struct {
	kind string // id num str op eof
	s    string
}

type lexer struct {
	src  string
	toks []tok
	p    int
}

var ops = []string{"<==>", "==>", "&&", "||", "==", "!=", "<=", ">=", "<<", ">>", "&^", "::", ":=",
	"+", "-", "*", "/", "%", "&", "|", "^", "<", ">", "!", "(", ")", "[", "]", ".", ",", ":", "{", "}"}

func lex(src string) ([]tok, error) {
	var toks []tok
	i := 0
	for i < len(src) {
		c := src[i]
		if c == ' ' || c == '\t' || c == '\n' {
			i++
			continue
		}
		if unicode.IsLetter(rune(c)) || c == '_' || c == '$' {
			j := i
			for j < len(src) && (unicode.IsLetter(rune(src[j])) || unicode.IsDigit(rune(src[j])) || src[j] == '_' || src[j] == '$') {
				j++
			}
			toks = append(toks, tok{"id", src[i:j]})
			i = j
			continue
		}
		if unicode.IsDigit(rune(c)) {
			j := i
			for j < len(src) && (unicode.IsLetter(rune(src[j])) || unicode.IsDigit(rune(src[j])) || src[j] == '_') {
				j++
			}
			toks = append(toks, tok{"num", strings.ReplaceAll(src[i:j], "_", "")})
			i = j
			continue
		}
		if c == '"' {
			j := i + 1
			for j < len(src) && src[j] != '"' {
				if src[j] == '\\' {
					j++
				}
				j++
			}
			if j >= len(src) {
				return nil, fmt.Errorf("unterminated string")
			}
			toks = append(toks, tok{"str", src[i+1 : j]})
			i = j + 1
			continue
		}
		matched := false
		for _, op := range ops {
			if strings.HasPrefix(src[i:], op) {
				toks = append(toks, tok{"op", op})
				i += len(op)
				matched = true
				break
			}
		}
		if !matched {
			return nil, fmt.Errorf("bad character %q", c)
		}
	}
	toks = append(toks, tok{"eof", ""})
	return toks, nil
}

func parseExpr(src string) (*Expr, error) {
	toks, err := lex(src)
	if err != nil {
		return nil, err
	}
	l := &lexer{src: src, toks: toks}
	e, err := l.expr(0)
	if err != nil {
		return nil, fmt.Errorf("%v in %q", err, src)
	}
	if l.peek().kind != "eof" {
		return nil, fmt.Errorf("trailing %q in %q", l.peek().s, src)
	}
	e.Src = src
	return e, nil
}

func (l *lexer) peek() tok { return l.toks[l.p] }
func (l *lexer) next() tok { t := l.toks[l.p]; l.p++; return t }
func (l *lexer) accept(op string) bool {
	if l.peek().kind == "op" && l.peek().s == op {
		l.p++
		return true
	}
	return false
}
func (l *lexer) expect(op string) error {
	if !l.accept(op) {
		return fmt.Errorf("expected %q, got %q", op, l.peek().s)
	}
	return nil
}

var binPrec = map[string]int{
	"<==>": 1, "==>": 2, "||": 3, "&&": 4,
	"==": 5, "!=": 5, "<": 5, "<=": 5, ">": 5, ">=": 5,
	"+": 6, "-": 6, "|": 6, "^": 6,
	"*": 7, "/": 7, "%": 7, "<<": 7, ">>": 7, "&": 7, "&^": 7,
}

func (l *lexer) expr(minPrec int) (*Expr, error) {
	t := l.peek()
	if t.kind == "id" && (t.s == "forall" || t.s == "exists") {
		l.next()
		var vars []QVar
		for {
			n := l.next()
			if n.kind != "id" {
				return nil, fmt.Errorf("quantifier variable expected")
			}
			ty, err := l.typeExpr()
			if err != nil {
				return nil, err
			}
			vars = append(vars, QVar{n.s, ty})
			if !l.accept(",") {
				break
			}
		}
		if err := l.expect("::"); err != nil {
			return nil, err
		}
		body, err := l.expr(0)
		if err != nil {
			return nil, err
		}
		return &Expr{Kind: "quant", Op: t.s, Vars: vars, X: body}, nil
	}
	lhs, err := l.unary()
	if err != nil {
		return nil, err
	}
	for {
		t := l.peek()
		if t.kind != "op" {
			break
		}
		p, ok := binPrec[t.s]
		if !ok || p < minPrec {
			break
		}
		l.next()
		np := p + 1
		if t.s == "==>" {
			np = p // right assoc
		}
		rhs, err := l.expr(np)
		if err != nil {
			return nil, err
		}
		lhs = &Expr{Kind: "binary", Op: t.s, X: lhs, Y: rhs}
	}
	return lhs, nil
}

func (l *lexer) typeExpr() (*Expr, error) {
	if l.accept("[") {
		if err := l.expect("]"); err != nil {
			return nil, err
		}
		el, err := l.typeExpr()
		if err != nil {
			return nil, err
		}
		return &Expr{Kind: "slicetype", X: el}, nil
	}
	if l.accept("*") {
		el, err := l.typeExpr()
		if err != nil {
			return nil, err
		}
		return &Expr{Kind: "star", X: el}, nil
	}
	n := l.next()
	if n.kind != "id" {
		return nil, fmt.Errorf("type expected, got %q", n.s)
	}
	if n.s == "map" {
		if err := l.expect("["); err != nil {
			return nil, err
		}
		k, err := l.typeExpr()
		if err != nil {
			return nil, err
		}
		if err := l.expect("]"); err != nil {
			return nil, err
		}
		v, err := l.typeExpr()
		if err != nil {
			return nil, err
		}
		return &Expr{Kind: "maptype", X: k, Y: v}, nil
	}
	e := &Expr{Kind: "ident", Name: n.s}
	if l.accept(".") {
		m := l.next()
		if m.kind != "id" {
			return nil, fmt.Errorf("type name expected")
		}
		e = &Expr{Kind: "sel", X: e, Name: m.s}
	}
	return e, nil
}

func (l *lexer) unary() (*Expr, error) {
	t := l.peek()
	if t.kind == "op" && (t.s == "!" || t.s == "-" || t.s == "^" || t.s == "*") {
		l.next()
		x, err := l.unary()
		if err != nil {
			return nil, err
		}
		if t.s == "*" {
			return &Expr{Kind: "star", X: x}, nil
		}
		return &Expr{Kind: "unary", Op: t.s, X: x}, nil
	}
	return l.postfix()
}

func (l *lexer) postfix() (*Expr, error) {
	var e *Expr
	t := l.next()
	switch t.kind {
	case "num":
		e = &Expr{Kind: "lit", Name: t.s}
	case "str":
		e = &Expr{Kind: "str", Name: t.s}
	case "id":
		e = &Expr{Kind: "ident", Name: t.s}
	case "op":
		if t.s == "(" {
			// parenthesised expression, or a parenthesised type such as (*T)
			x, err := l.expr(0)
			if err != nil {
				return nil, err
			}
			if err := l.expect(")"); err != nil {
				return nil, err
			}
			e = &Expr{Kind: "paren", X: x}
		} else {
			return nil, fmt.Errorf("unexpected %q", t.s)
		}
	default:
		return nil, fmt.Errorf("unexpected end of expression")
	}
	for {
		switch {
		case l.accept("."):
			n := l.next()
			if n.kind != "id" {
				return nil, fmt.Errorf("field name expected")
			}
			e = &Expr{Kind: "sel", X: e, Name: n.s}
		case l.accept("["):
			if l.accept("*") {
				if err := l.expect("]"); err != nil {
					return nil, err
				}
				e = &Expr{Kind: "allelems", X: e}
				continue
			}
			var lo, hi *Expr
			var err error
			if l.peek().kind == "op" && l.peek().s == ":" {
				// [:hi]
			} else {
				lo, err = l.expr(0)
				if err != nil {
					return nil, err
				}
			}
			if l.accept(":") {
				if !(l.peek().kind == "op" && l.peek().s == "]") {
					hi, err = l.expr(0)
					if err != nil {
						return nil, err
					}
				}
				if err := l.expect("]"); err != nil {
					return nil, err
				}
				e = &Expr{Kind: "slice", X: e, Args: []*Expr{lo, hi}}
				continue
			}
			if err := l.expect("]"); err != nil {
				return nil, err
			}
			e = &Expr{Kind: "index", X: e, Y: lo}
		case l.accept("("):
			var args []*Expr
			if !l.accept(")") {
				for {
					a, err := l.expr(0)
					if err != nil {
						return nil, err
					}
					args = append(args, a)
					if l.accept(")") {
						break
					}
					if err := l.expect(","); err != nil {
						return nil, err
					}
				}
			}
			e = &Expr{Kind: "call", X: e, Args: args}
		default:
			return e, nil
		}
	}
}

func (e *Expr) String() string {
	if e == nil {
		return "<nil>"
	}
	switch e.Kind {
	case "lit", "ident":
		return e.Name
	case "str":
		return "\"" + e.Name + "\""
	case "sel":
		return e.X.String() + "." + e.Name
	case "index":
		return e.X.String() + "[" + e.Y.String() + "]"
	case "allelems":
		return e.X.String() + "[*]"
	case "call":
		var as []string
		for _, a := range e.Args {
			as = append(as, a.String())
		}
		return e.X.String() + "(" + strings.Join(as, ", ") + ")"
	case "unary":
		return e.Op + e.X.String()
	case "star":
		return "*" + e.X.String()
	case "paren":
		return "(" + e.X.String() + ")"
	case "binary":
		return "(" + e.X.String() + " " + e.Op + " " + e.Y.String() + ")"
	case "quant":
		return e.Op + " ... :: " + e.X.String()
	}
	return e.Kind
}
