package main

import (
	"go/types"
	"os/exec"
	"golang.org/x/tools/go/ssa"
	"encoding/json"
	"flag"
	"fmt"
	"os"
	"path/filepath"
	"sort"
	"strconv"
	"strings"
	"sync"
	"time"
)

type KnownFinding struct {
	Property   string `json:"property"`
	Obligation string `json:"obligation"`
	Region     string `json:"region,omitempty"`
	What       string `json:"what"`
	Replay     string `json:"replay,omitempty"`
	D          string `json:"defect,omitempty"`
}

type FixedEntry struct {
	Property string `json:"property"`
	Commit   string `json:"commit"`
	What     string `json:"what"`
}

type KnownFile struct {
	Findings []*KnownFinding `json:"findings"`
	Fixed    []*FixedEntry   `json:"fixed"`
}

var verifDir = "/verif"

// outDir: where evidence and replay files go (VERIF_OUT; default verifDir). Used to
// try seeded changes in a scratch copy without touching the committed evidence.
var outDir = ""

func loadKnown() *KnownFile {
	kf := &KnownFile{}
	b, err := os.ReadFile(filepath.Join(verifDir, "known_findings.json"))
	if err == nil {
		if err := json.Unmarshal(b, kf); err != nil {
			fmt.Fprintf(os.Stderr, "known_findings.json: %v\n", err)
			os.Exit(2)
		}
	}
	return kf
}

func specProps(s *FuncSpec) map[string]bool {
	m := map[string]bool{}
	for _, p := range s.Props {
		m[p] = true
	}
	add := func(cs []*Clause) {
		for _, c := range cs {
			for _, p := range c.Props {
				m[p] = true
			}
		}
	}
	add(s.Requires)
	add(s.Ensures)
	add(s.PanicsIf)
	for _, l := range s.Loops {
		add(l.Invs)
	}
	return m
}

func main() {
	if len(os.Args) < 2 {
		fmt.Fprintln(os.Stderr, "usage: govc check --prop Cxx [--tier quick|thorough] | govc func KEY | govc list")
		os.Exit(2)
	}
	cmd := os.Args[1]
	fs := flag.NewFlagSet(cmd, flag.ExitOnError)
	prop := fs.String("prop", "", "property id")
	tier := fs.String("tier", "quick", "quick|thorough")
	repo := fs.String("repo", "/repo", "repository")
	timeout := fs.Int("timeout", 0, "per-obligation timeout (s)")
	keep := fs.Bool("keep", false, "keep SMT files")
	verbose := fs.Bool("v", false, "verbose")
	fs.Parse(os.Args[2:])
	if t := os.Getenv("VERIF_TIER"); t != "" && cmd == "check" {
		*tier = t
	}
	if d := os.Getenv("VERIF_DIR"); d != "" {
		verifDir = d
	}
	outDir = verifDir
	if d := os.Getenv("VERIF_OUT"); d != "" {
		outDir = d
	}
	t0 := time.Now()
	P, err := loadProg(*repo, []string{filepath.Join(verifDir, "contracts")})
	if err != nil {
		fmt.Fprintf(os.Stderr, "govc: %v\n", err)
		if cmd == "check" {
			writeBrokenEvidence(*prop, *tier, err.Error(), time.Since(t0).Seconds())
			fmt.Printf("VIOLATION property=%s replay=%s no-failing-input-found\n", *prop, writeTextReplay(*prop, "load", "repository does not load: "+err.Error()))
			os.Exit(1)
		}
		os.Exit(2)
	}
	P.known = loadKnown()
	loadS := time.Since(t0).Seconds()
	perObl := *timeout
	if perObl == 0 {
		// the slowest obligation of the unchanged tree takes about 8 s on 16 idle
		// cores; the budget leaves a factor of five for a slower or busier machine
		perObl = 45
		if *tier == "thorough" {
			perObl = 150
		}
	}
	switch cmd {
	case "list":
		var ks []string
		for k := range P.specs.Funcs {
			ks = append(ks, k)
		}
		sort.Strings(ks)
		for _, k := range ks {
			s := P.specs.Funcs[k]
			var ps []string
			for p := range specProps(s) {
				ps = append(ps, p)
			}
			sort.Strings(ps)
			_, bound := P.fnByKey[k]
			bound = bound || s.Lemma
			fmt.Printf("%-60s assume=%v inline=%v bound=%v props=%v\n", k, s.Assume, s.Inline, bound, ps)
		}
	case "keys":
		var ks []string
		for k := range P.fnByKey {
			if len(fs.Args()) == 0 || strings.Contains(k, fs.Arg(0)) {
				ks = append(ks, k)
			}
		}
		sort.Strings(ks)
		for _, k := range ks {
			fmt.Println(k)
		}
	case "params":
		// parameter names (receiver first) of every function under contract
		var ks []string
		for k, sp := range P.specs.Funcs {
			if !strings.HasPrefix(k, "@") && !sp.Lemma && P.fnByKey[k] != nil {
				ks = append(ks, k)
			}
		}
		sort.Strings(ks)
		for _, k := range ks {
			var ns []string
			for _, p := range P.fnByKey[k].Params {
				ns = append(ns, p.Name())
			}
			fmt.Printf("%s\t%s\t%s\n", k, P.specs.Funcs[k].File, strings.Join(ns, ","))
		}
	case "func":
		work, _ := os.MkdirTemp("", "govc")
		if !*keep {
			defer os.RemoveAll(work)
		} else {
			fmt.Println("workdir:", work)
		}
		kf := loadKnown()
		sem := make(chan struct{}, 16)
		bad := 0
		for _, key := range fs.Args() {
			r := P.verifyFunc(key, true)
			attachRegions(P, r, kf)
			if r.Err == "" {
				discharge(r, work, perObl, sem, *tier == "thorough")
			}
			printFuncResult(r, true)
			for _, o := range r.Obls {
				if o.Status == "failed" || o.Status == "undecided" || o.Status == "cover-fail" {
					bad++
				}
			}
			if r.Err != "" {
				bad++
			}
		}
		fmt.Printf("load %.1fs total %.1fs\n", loadS, time.Since(t0).Seconds())
		if bad > 0 {
			os.Exit(1)
		}
	case "check":
		if *prop == "" {
			fmt.Fprintln(os.Stderr, "--prop required")
			os.Exit(2)
		}
		if *prop == "C16" {
			// the nfstypes contracts must be the ones the RFC 1813 grammar generates
			out, err := exec.Command("python3", filepath.Join(verifDir, "tools", "xdrgen.py"), "--check", "--repo", *repo).CombinedOutput()
			if err != nil {
				msg := "the nfstypes contract file is not the one generated from the RFC 1813 XDR grammar: " + strings.TrimSpace(string(out))
				writeBrokenEvidence(*prop, *tier, msg, time.Since(t0).Seconds())
				fmt.Printf("VIOLATION property=%s replay=%s obligation=nfstypes/contracts-from-grammar no-failing-input-found\n", *prop, writeTextReplay(*prop, "contracts-from-grammar", msg))
				os.Exit(1)
			}
		}
		rc := checkProp(P, *prop, *tier, perObl, *verbose, *keep, t0)
		if *prop == "C16" && *tier == "thorough" {
			// thorough: besides the proofs, the whole differential suite generated from the
			// grammar is run on the real code (every type, wrapper and table)
			if txt, bad := replayXDRAll(P); bad {
				fmt.Printf("VIOLATION property=C16 replay=%s obligation=nfstypes/differential-suite\n", writeTextReplay("C16", "differential-suite", txt))
				rc = 1
			} else {
				fmt.Println("C16 thorough: differential suite generated from the grammar agrees with the real code on every type, wrapper and table")
			}
		}
		os.Exit(rc)
	default:
		fmt.Fprintln(os.Stderr, "unknown command", cmd)
		os.Exit(2)
	}
}

func printFuncResult(r *FuncResult, all bool) {
	fmt.Printf("== %s  (%d obligations, %.1fs)\n", r.Key, len(r.Obls), r.Secs)
	if r.Err != "" {
		fmt.Printf("   ERROR: %s\n", r.Err)
	}
	for _, n := range r.Notes {
		fmt.Printf("   note: %s\n", n)
	}
	for _, o := range r.Obls {
		if all || (o.Status != "discharged" && o.Status != "cover-ok") {
			fmt.Printf("   %-11s %-70s %v %s %s\n", o.Status, strings.TrimPrefix(o.Name, r.Key+"/"), o.Props, o.Pos, o.Detail)
			if o.Model != "" && o.Status != "known" {
				fmt.Printf("      model: %s\n", modelSummary(o))
			}
		}
		if os.Getenv("GOVC_TIMES") != "" && (o.Secs > 1.0 || !(strings.Contains(o.Solver, "sliced") || strings.Contains(o.Solver, "incremental"))) {
			fmt.Printf("   SLOW %.1fs %-28s %s\n", o.Secs, o.Solver, strings.TrimPrefix(o.Name, r.Key+"/"))
		}
	}
}

func modelSummary(o *Obligation) string {
	m := strings.Join(strings.Fields(o.Model), " ")
	for _, in := range o.Inputs {
		m = strings.ReplaceAll(m, "("+in.Term+" ", "("+in.Name+"=")
	}
	if len(m) > 600 {
		m = m[:600] + "..."
	}
	return m
}

// attachRegions evaluates the region predicates of listed findings for this
// function and attaches them to the named obligations.
func attachRegions(P *Prog, r *FuncResult, kf *KnownFile) {
	for _, f := range kf.Findings {
		for _, o := range r.Obls {
			if o.Name == f.Obligation {
				o.Finding = f
				if f.Region == "" {
					o.Region = "true"
				} else if t, ok := r.regionTerms[f.Region]; ok {
					o.Region = t
				} else {
					o.Region = "true"
					r.Notes = append(r.Notes, "region of finding "+f.Obligation+" could not be evaluated; treated as whole domain")
				}
			}
		}
	}
}

type evidence struct {
	PropertyID  string                 `json:"property_id"`
	Tier        string                 `json:"tier"`
	Seed        int                    `json:"seed"`
	Level       string                 `json:"level"`
	Coverage    map[string]interface{} `json:"coverage"`
	Assumptions []string               `json:"assumptions"`
	WallS       float64                `json:"wall_s"`
	Violations  int                    `json:"violations"`
}

func seed() int {
	n, _ := strconv.Atoi(os.Getenv("VERIF_SEED"))
	return n
}

func writeBrokenEvidence(prop, tier, msg string, wall float64) {
	ev := evidence{PropertyID: prop, Tier: tier, Seed: seed(), Level: "proof", WallS: wall, Violations: 1,
		Coverage: map[string]interface{}{"obligations": 1, "discharged": 0, "checker_cmd": "govc check --prop " + prop,
			"trusted_base": []string{}, "explanation": "engine could not run: " + msg}}
	writeEvidence(prop, &ev)
}

func writeEvidence(prop string, ev *evidence) {
	os.MkdirAll(filepath.Join(outDir, "evidence"), 0o755)
	b, _ := json.MarshalIndent(ev, "", " ")
	os.WriteFile(filepath.Join(outDir, "evidence", prop+".json"), append(b, '\n'), 0o644)
}

func writeTextReplay(prop, name, text string) string {
	dir := filepath.Join(outDir, "replays", prop)
	os.MkdirAll(dir, 0o755)
	n := sanitize(name)
	if len(n) > 150 {
		n = n[:150]
	}
	p := filepath.Join(dir, n+".txt")
	os.WriteFile(p, []byte(text), 0o644)
	return p
}

func checkProp(P *Prog, prop, tier string, perObl int, verbose, keep bool, t0 time.Time) int {
	kf := loadKnown()
	var keys []string
	for k, s := range P.specs.Funcs {
		if s.Assume || (s.Inline && len(s.Ensures) == 0 && len(s.Props) == 0) {
			continue
		}
		if strings.Contains(k, "#") {
			continue
		}
		if specProps(s)[prop] || (hookProps(P)[prop] && reachesHookedType(P, k)) {
			// a property served by a protected/onwrite hook is checked at every
			// access in every function under contract
			keys = append(keys, k)
		}
	}
	// family closure: the contracts of one server assume its global invariants
	// (pointer validity, directory shape, cache coherence, allocator shape, ...)
	// wherever state is loaded and check them wherever state is stored, so a
	// property of that server is proved only if EVERY function of the server
	// under contract preserves them: a check covers all functions under contract
	// of every family (main server / simple / kvs / XDR codec) it has a function in
	fams := map[string]bool{}
	for _, k := range keys {
		fams[familyOf(k)] = true
	}
	have := map[string]bool{}
	for _, k := range keys {
		have[k] = true
	}
	for k, s := range P.specs.Funcs {
		if have[k] || s.Assume || (s.Inline && len(s.Ensures) == 0 && len(s.Props) == 0) || strings.Contains(k, "#") || strings.HasPrefix(k, "@") {
			continue
		}
		if P.fnByKey[k] == nil && !s.Lemma {
			continue
		}
		if f := familyOf(k); f != "" && fams[f] {
			keys = append(keys, k)
			have[k] = true
		}
	}
	sort.Strings(keys)
	// modular closure: the proof of a function uses the contracts of its
	// callees, so a property's check also verifies every (non-assumed) callee
	// under contract, transitively
	seen := map[string]bool{}
	for _, k := range keys {
		seen[k] = true
	}
	for i := 0; i < len(keys); i++ {
		fn := P.fnByKey[keys[i]]
		if fn == nil {
			continue
		}
		var visit func(f *ssa.Function)
		visit = func(f *ssa.Function) {
			for _, b := range f.Blocks {
				for _, in := range b.Instrs {
					if c, ok := in.(ssa.CallInstruction); ok {
						if callee := c.Common().StaticCallee(); callee != nil {
							ck := P.funcKey(callee)
							if cs := P.specs.Funcs[ck]; cs != nil && !cs.Assume && !seen[ck] && !strings.Contains(ck, "#") {
								seen[ck] = true
								keys = append(keys, ck)
							} else if cs == nil && callee.Pkg != nil && P.fnByKey[ck] != nil && !seen["~"+ck] {
								// spec-less helper that is inlined: look through it
								seen["~"+ck] = true
								visit(callee)
							}
						}
					}
					if mc, ok := in.(*ssa.MakeClosure); ok {
						if af, ok := mc.Fn.(*ssa.Function); ok {
							visit(af)
						}
					}
				}
			}
		}
		visit(fn)
	}
	sort.Strings(keys)
	work, _ := os.MkdirTemp("", "govc-"+prop)
	if !keep {
		defer os.RemoveAll(work)
	} else {
		fmt.Println("workdir:", work)
	}
	sem := make(chan struct{}, 16)
	results := make([]*FuncResult, len(keys))
	var wg sync.WaitGroup
	var mu sync.Mutex
	for i, k := range keys {
		// symbolic execution shares Prog caches: generate sequentially, solve in parallel
		mu.Lock()
		r := P.verifyFunc(k, prop == "C11")
		attachRegions(P, r, kf)
		// every obligation of a function this property's proof rests on counts
		// for the property (vacuity covers excepted: they are reported anyway)
		for _, o := range r.Obls {
			if !hasProp(o, prop) && o.Kind != "protected" {
				o.Props = append(o.Props, prop)
			}
		}
		mu.Unlock()
		results[i] = r
		if r.Err != "" {
			continue
		}
		wg.Add(1)
		go func(r *FuncResult) {
			defer wg.Done()
			discharge(r, work, perObl, sem, tier == "thorough")
		}(r)
	}
	wg.Wait()
	return report(P, prop, tier, results, kf, verbose, t0)
}

func hookProps(P *Prog) map[string]bool {
	m := map[string]bool{}
	for _, h := range P.specs.Hooks {
		if h.Kind != "protected" {
			continue
		}
		for _, p := range h.Props {
			m[p] = true
		}
	}
	return m
}

// reachesHookedType: can code of the function's package touch a type that a
// protected hook guards? Only then can a hook obligation arise in it (the
// generated XDR codec, which imports nothing of the file system, cannot).
func reachesHookedType(P *Prog, key string) bool {
	fn := P.fnByKey[key]
	if fn == nil || fn.Pkg == nil {
		return true
	}
	hooked := map[string]bool{}
	for _, h := range P.specs.Hooks {
		if h.Kind == "protected" && h.Target != nil {
			t := h.Target
			for t.Kind == "sel" {
				t = t.X
			}
			if t.Kind == "ident" {
				hooked[t.Name] = true
			}
		}
	}
	seen := map[*types.Package]bool{}
	var visit func(p *types.Package) bool
	visit = func(p *types.Package) bool {
		if p == nil || seen[p] {
			return false
		}
		seen[p] = true
		if hooked[p.Name()] {
			return true
		}
		for _, q := range p.Imports() {
			if visit(q) {
				return true
			}
		}
		return false
	}
	return visit(fn.Pkg.Pkg)
}

// familyOf names the server a function under contract belongs to.
func familyOf(key string) string {
	k := strings.TrimPrefix(key, "lemma:")
	pkg := k
	if i := strings.Index(k, "."); i >= 0 {
		pkg = k[:i]
	}
	switch pkg {
	case "simple":
		return "simple"
	case "kvs":
		return "kvs"
	case "nfstypes":
		return "codec"
	case "nfs", "inode", "dir", "fstxn", "alloctxn", "cache", "shrinker", "super", "fh", "dcache", "stats", "alloc", "marshal", "std", "buf", "util":
		return "main"
	}
	return ""
}
