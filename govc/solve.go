package main

import (
	"sync/atomic"
	"bytes"
	"context"
	"fmt"
	"os"
	"os/exec"
	"path/filepath"
	"strings"
	"sync"
	"time"
)

type Solver struct {
	Name string
	Cmd  []string // file appended
	Incr bool
}

func solvers(timeoutS int) []Solver {
	// The budget of a race is CPU time (ulimit -t), not wall-clock time: whether an obligation is decided
	// must not depend on how busy the machine is (session 4: with six checks running side by side, 8 s
	// obligations ran into the 45 s wall-clock limit and were reported as undecided). The wall-clock
	// limit is only a backstop at six times the budget.
	wall := timeoutS * 6
	lim := func(cmd ...string) []string {
		return append([]string{"sh", "-c", fmt.Sprintf("ulimit -t %d; exec \"$@\"", timeoutS), "sh"}, cmd...)
	}
	return []Solver{
		{Name: "z3-new-5.1.0", Cmd: lim("z3-new", fmt.Sprintf("-T:%d", wall))},
		{Name: "z3-4.8.12", Cmd: lim("z3", fmt.Sprintf("-T:%d", wall))},
		{Name: "cvc5-1.0", Cmd: lim("cvc5", "--lang=smt2", fmt.Sprintf("--tlimit=%d", wall*1000))},
		// pattern-based instantiation only: answers unsat or unknown; decides array-copy invariants the
		// model-based configurations above need 10-25 s for (session 4: inode.Read/R-copied) in 3 s
		{Name: "z3-new-5.1.0(ematch)", Cmd: lim("z3-new", fmt.Sprintf("-T:%d", wall), "smt.mbqi=false", "smt.auto_config=false")},
	}
}

func runSolver(ctx context.Context, cmd []string, file string) (string, float64) {
	t0 := time.Now()
	c := exec.CommandContext(ctx, cmd[0], append(cmd[1:], file)...)
	var out bytes.Buffer
	c.Stdout = &out
	c.Stderr = &out
	c.Run()
	return out.String(), time.Since(t0).Seconds()
}

// discharge runs the incremental script of one function on z3-new, then
// races the three solvers on every obligation that was not decided.
func discharge(fr *FuncResult, workdir string, perOblS int, sem chan struct{}, thorough bool) {
	t0 := time.Now()
	defer func() { fr.Secs = time.Since(t0).Seconds() }()
	if len(fr.Obls) == 0 {
		return
	}
	base := filepath.Join(workdir, sanitize(fr.Key))
	incrMs := perOblS * 1000
	if incrMs > 3000 {
		incrMs = 3000
	}
	script, obls := fr.Em.script(incrMs)
	file := base + ".smt2"
	var pending []*Obligation
	classify := func(o *Obligation, a string) {
		switch {
		case o.Cover && a == "sat":
			o.Status = "cover-ok"
		case o.Cover && a == "unsat":
			o.Status = "cover-fail"
		case o.Cover:
			o.Status = "cover-ok"
			o.Detail = "cover undecided"
		case !o.Cover && a == "unsat":
			o.Status = "discharged"
			if o.Region != "" || thorough {
				pending = append(pending, o)
			}
		default:
			pending = append(pending, o)
		}
	}
	if len(obls) > 120 || len(script) > 800000 {
		// large function: one sliced query per obligation, in parallel
		var mu sync.Mutex
		var wg0 sync.WaitGroup
		for _, o := range obls {
			wg0.Add(1)
			go func(o *Obligation) {
				defer wg0.Done()
				f := fmt.Sprintf("%s.q%p.smt2", base, o)
				if k := os.Getenv("GOVC_KEEPQ"); k != "" && strings.Contains(o.Name, k) {
					os.WriteFile(fmt.Sprintf("/tmp/keepq.%p.smt2", o), []byte("; "+o.Name+" "+o.Pos+"\n"+fr.Em.standalone(o, "", false)), 0o644)
				}
				os.WriteFile(f, []byte(fr.Em.standalone(o, "", false)), 0o644)
				sem <- struct{}{}
				ctx, cancel := context.WithTimeout(context.Background(), 6*time.Second)
				out, secs := runSolver(ctx, []string{"z3-new", "-T:4"}, f)
				cancel()
				<-sem
				os.Remove(f)
				a := strings.TrimSpace(strings.SplitN(out, "\n", 2)[0])
				mu.Lock()
				o.Solver = "z3-new-5.1.0(sliced)"
				o.Secs = secs
				classify(o, a)
				mu.Unlock()
			}(o)
		}
		wg0.Wait()
	} else {
		os.WriteFile(file, []byte(script), 0o644)
		sem <- struct{}{}
		// the incremental pass gets a bounded budget; what it has not answered by
		// then is decided one obligation at a time by the solver race below
		budget := 45 * time.Second
		if thorough {
			budget = 180 * time.Second
		}
		ctx, cancel := context.WithTimeout(context.Background(), budget)
		out, secs := runSolver(ctx, []string{"z3-new", fmt.Sprintf("-t:%d", incrMs)}, file)
		cancel()
		<-sem
		var answers []string
		for _, ln := range strings.Split(out, "\n") {
			ln = strings.TrimSpace(ln)
			if ln == "sat" || ln == "unsat" || ln == "unknown" || ln == "timeout" {
				answers = append(answers, ln)
			} else if strings.HasPrefix(ln, "(error") && !strings.Contains(ln, "model is not available") {
				fr.Notes = append(fr.Notes, "solver error: "+ln)
				fr.Err = "the generated SMT script is ill-formed (engine error): " + ln
			}
		}
		per := secs / float64(len(obls))
		for i, o := range obls {
			a := "unknown"
			if i < len(answers) {
				a = answers[i]
			}
			o.Solver = "z3-new-5.1.0(incremental)"
			o.Secs = per
			classify(o, a)
		}
	}
	// second stage: standalone, three solvers in a race
	var wg sync.WaitGroup
	var timedOut int32 // obligations of this function no solver could decide
	fgate := make(chan struct{}, 8)
	for _, o := range pending {
		wg.Add(1)
		go func(o *Obligation) {
			defer wg.Done()
			fgate <- struct{}{}
			defer func() { <-fgate }()
			if atomic.LoadInt32(&timedOut) >= 12 && o.Status != "discharged" && !o.Cover && o.Region == "" {
				// a function that has already left a dozen obligations undecided is not
				// going to verify: do not spend the full budget on each of the others
				o.Status = "undecided"
				o.Detail = "not attempted: 12 obligations of this function were already undecided"
				return
			}
			defer func() {
				if o.Status == "undecided" {
					atomic.AddInt32(&timedOut, 1)
				}
			}()
			if o.Region != "" {
				raceRegion(fr, o, base, perOblS, sem)
				return
			}
			if thorough && o.Status == "discharged" {
				// confirmation by a second solver
				st, solver, s, _ := race(fr, o, "", base, perOblS, sem, "z3-new-5.1.0")
				if st == "unsat" {
					o.Solver += "+" + solver
					o.Secs += s
				} else if st == "sat" {
					o.Status = "failed"
					o.Detail = "solvers disagree: " + solver + " says sat"
				} else {
					o.Detail = "second solver undecided"
				}
				return
			}
			st, solver, s, model := race(fr, o, "", base, perOblS, sem, "")
			o.Solver, o.Secs = solver, s
			switch {
			case o.Cover && st == "sat":
				o.Status = "cover-ok"
			case o.Cover && st == "unsat":
				o.Status = "cover-fail"
			case o.Cover:
				o.Status = "cover-ok" // undecided cover is not evidence of vacuity
				o.Detail = "cover undecided"
			case st == "unsat":
				o.Status = "discharged"
			case st == "sat":
				o.Status = "failed"
				o.Model = model
			default:
				o.Status = "undecided"
				// candidate counterexample: drop the quantified hypotheses; a model of
				// the rest is not a proof of failure but shows where to look
				if m := candidate(fr, o, base, sem); m != "" {
					o.Model = m
					o.Detail = "candidate counterexample (quantified hypotheses dropped)"
				}
			}
		}(o)
	}
	wg.Wait()
}

// race runs all solvers on a standalone script and returns the first
// definite answer.
func race(fr *FuncResult, o *Obligation, mode, base string, perOblS int, sem chan struct{}, skip string) (string, string, float64, string) {
	script := fr.Em.standalone(o, mode, true)
	file := fmt.Sprintf("%s.%s.%p%s.smt2", base, sanitize(strings.TrimPrefix(o.Name, fr.Key+"/")), o, mode)
	if len(file) > 240 {
		file = fmt.Sprintf("%s.o%p%s.smt2", base, o, mode)
	}
	os.WriteFile(file, []byte(script), 0o644)
	if k := os.Getenv("GOVC_KEEPQ"); k != "" && strings.Contains(o.Name, k) {
		os.WriteFile(fmt.Sprintf("/tmp/keepq.%p.smt2", o), []byte("; "+o.Name+" "+o.Pos+"\n"+script), 0o644)
	}
	files := []string{file}

	type ans struct {
		st, solver, out string
		secs            float64
	}
	ctx, cancel := context.WithCancel(context.Background())
	defer cancel()
	svs := solvers(perOblS)
	ch := make(chan ans, len(svs))
	n := 0
	ch = make(chan ans, len(svs)*len(files))
	for fi, f := range files {
		for _, sv := range svs {
			if skip != "" && strings.HasPrefix(sv.Name, skip) {
				continue
			}
			n++
			go func(sv Solver, f string, fi int) {
				sem <- struct{}{}
				out, secs := runSolver(ctx, sv.Cmd, f)
				<-sem
				first := strings.TrimSpace(strings.SplitN(out, "\n", 2)[0])
				name := sv.Name
				if fi == 1 {
					name += "(expanded)"
					if first == "sat" {
						// a model of the expanded form is still a model: keep it
					}
				}
				ch <- ans{first, name, out, secs}
			}(sv, f, fi)
		}
	}
	var last ans
	for i := 0; i < n; i++ {
		a := <-ch
		if a.st == "unsat" || a.st == "sat" {
			model := ""
			if a.st == "sat" {
				if j := strings.Index(a.out, "\n"); j >= 0 {
					model = strings.TrimSpace(a.out[j+1:])
				}
			}
			return a.st, a.solver, a.secs, model
		}
		last = a
	}
	return "unknown", last.solver, last.secs, ""
}

// raceRegion decides a listed known finding: the clause must hold outside
// the region; inside it is expected to fail.
func raceRegion(fr *FuncResult, o *Obligation, base string, perOblS int, sem chan struct{}) {
	stOut, solver, s, model := race(fr, o, "outside", base, perOblS, sem, "")
	o.Solver, o.Secs = solver, s
	switch stOut {
	case "unsat":
		// inside the listed region the clause is expected to fail: a short budget is
		// enough to notice that it has started to hold (finding no longer reproduces)
		inS := perOblS
		if inS > 10 {
			inS = 10
		}
		stIn, _, s2, m2 := race(fr, o, "inside", base, inS, sem, "")
		o.Secs += s2
		if stIn == "unsat" {
			o.Status = "discharged"
			o.Detail = "listed finding no longer fails"
		} else {
			o.Status = "known"
			o.Model = m2
		}
	case "sat":
		o.Status = "failed"
		o.Model = model
		o.Detail = "fails outside the listed region"
	default:
		o.Status = "undecided"
		o.Detail = "outside-region query undecided"
	}
}

func candidate(fr *FuncResult, o *Obligation, base string, sem chan struct{}) string {
	script := fr.Em.standalone(o, "", true)
	var b strings.Builder
	for _, ln := range strings.Split(script, "\n") {
		if strings.Contains(ln, "(forall ") || strings.Contains(ln, "(exists ") {
			if strings.HasPrefix(ln, "(assert (not ") {
				return "" // the goal itself is quantified
			}
			continue
		}
		b.WriteString(ln)
		b.WriteByte('\n')
	}
	file := fmt.Sprintf("%s.cand%p.smt2", base, o)
	os.WriteFile(file, []byte(b.String()), 0o644)
	sem <- struct{}{}
	ctx, cancel := context.WithTimeout(context.Background(), 8*time.Second)
	out, _ := runSolver(ctx, []string{"z3-new", "-T:6"}, file)
	cancel()
	<-sem
	if strings.HasPrefix(strings.TrimSpace(out), "sat") {
		if j := strings.Index(out, "\n"); j >= 0 {
			return strings.TrimSpace(out[j+1:])
		}
	}
	return ""
}
