package main

import (
	"path/filepath"
	"fmt"
	"go/token"
	"go/types"
	"sort"
	"strings"

	"golang.org/x/tools/go/ssa"
)

func (x *Exec) call(fr *Frame, st *State, c *ssa.CallCommon, pos token.Pos, instr ssa.Value) Value {
	var args []Value
	for _, a := range c.Args {
		args = append(args, x.value(fr, a))
	}
	fnv := x.value(fr, c.Value)
	if in, ok := instr.(ssa.Instruction); ok && in != nil {
		x.curBlock = in.Block()
	}
	return x.callWith(fr, st, c, fnv, args, pos, instr)
}

func (x *Exec) resultType(c *ssa.CallCommon) types.Type {
	res := c.Signature().Results()
	if res.Len() == 0 {
		return nil
	}
	if res.Len() == 1 {
		return res.At(0).Type()
	}
	return res
}

func (x *Exec) callWith(fr *Frame, st *State, c *ssa.CallCommon, fnv Value, args []Value, pos token.Pos, instr ssa.Value) Value {
	// coerce untyped nil arguments
	params := c.Signature().Params()
	for i := range args {
		pi := i
		if c.Signature().Variadic() && pi >= params.Len() {
			pi = params.Len() - 1
		}
		if pi < params.Len() {
			args[i] = x.coerce(args[i], params.At(pi).Type())
		}
	}
	if c.IsInvoke() {
		recv := x.asIface(fnv, c.Value.Type())
		key := x.P.ifaceKey(c.Value.Type(), c.Method.Name())
		spec := x.P.specs.Funcs[key]
		if spec == nil {
			x.note("invoke of %s without contract: everything havocked", key)
			return x.havocCall(fr, st, x.resultType(c), key)
		}
		x.safety(fr, st, "nil", "invoke", not(eq(recv.Tag, "0")), pos)
		sig := c.Signature()
		names := []string{"this"}
		for i := 0; i < sig.Params().Len(); i++ {
			names = append(names, sig.Params().At(i).Name())
		}
		if len(spec.Params) == len(names) {
			names = spec.Params // the contract's own parameter list binds by position
		}
		return x.applyContract(fr, st, spec, key, names, append([]Value{recv}, args...), x.resultType(c), resultNames(sig), pos)
	}
	switch f := fnv.(type) {
	case FuncV:
		if strings.HasPrefix(f.Name, "builtin:") {
			return x.builtin(fr, st, strings.TrimPrefix(f.Name, "builtin:"), c, args, pos)
		}
		if f.Fn != nil {
			return x.callFunc(fr, st, f.Fn, nil, args, pos)
		}
		// call through a function-typed parameter
		if p, ok := c.Value.(*ssa.Parameter); ok {
			if cb := fr.cbSpecs[p.Name()]; cb != nil {
				sig := c.Signature()
				names := cb.Params
				if len(names) == 0 {
					for i := 0; i < sig.Params().Len(); i++ {
						names = append(names, fmt.Sprintf("a%d", i))
					}
				}
				return x.applyContract(fr, st, cb, cb.Key, names, args, x.resultType(c), resultNames(sig), pos)
			}
		}
		x.note("call through unknown function value in %s: everything havocked", x.P.funcKey(fr.fn))
		return x.havocCall(fr, st, x.resultType(c), "funcvalue")
	case Closure:
		return x.callFunc(fr, st, f.Fn, f.Bindings, args, pos)
	}
	x.fail("call of %T", fnv)
	return nil
}

func resultNames(sig *types.Signature) []string {
	var ns []string
	for i := 0; i < sig.Results().Len(); i++ {
		ns = append(ns, sig.Results().At(i).Name())
	}
	return ns
}

func (x *Exec) paramNames(fn *ssa.Function, spec *FuncSpec) []string {
	var ns []string
	for _, p := range fn.Params {
		ns = append(ns, p.Name())
	}
	if spec != nil && len(spec.Params) == len(ns) {
		return spec.Params
	}
	return ns
}

func (x *Exec) callFunc(fr *Frame, st *State, fn *ssa.Function, free []Value, args []Value, pos token.Pos) Value {
	key := x.P.funcKey(fn)
	spec := x.P.specs.Funcs[key]
	if cp := callerPkg(fr.fn); cp != "" {
		if s2 := x.P.specs.Funcs["@"+cp+":"+key]; s2 != nil {
			spec = s2
		}
	}
	var rt types.Type
	res := fn.Signature.Results()
	if res.Len() == 1 {
		rt = res.At(0).Type()
	} else if res.Len() > 1 {
		rt = res
	}
	forceInline := false
	if fr.spec != nil && contains(fr.spec.InlineCalls, key) {
		forceInline = true
	}
	if spec != nil && !spec.Inline && !forceInline {
		x.usedSpecs[key] = true
		return x.applyContract(fr, st, spec, key, x.paramNames(fn, spec), args, rt, resultNames(fn.Signature), pos)
	}
	if forceInline || x.canInline(fn, spec) {
		return x.inline(fr, st, fn, spec, free, args, pos)
	}
	x.note("call of %s without contract and not inlinable: everything havocked", key)
	return x.havocCall(fr, st, rt, key)
}

func (x *Exec) canInline(fn *ssa.Function, spec *FuncSpec) bool {
	if fn.Blocks == nil {
		return false
	}
	for _, s := range x.stack {
		if s == fn {
			return false
		}
	}
	if len(x.stack) > 8 {
		return false
	}
	if spec != nil && spec.Inline {
		return true
	}
	if !x.P.inlinablePkg(fn) {
		return false
	}
	n := 0
	for _, b := range fn.Blocks {
		n += len(b.Instrs)
	}
	if n > 400 {
		return false
	}
	// loops need invariants, hence a spec
	if len(findLoops(fn)) > 0 && fn.Parent() == nil {
		return false
	}
	return true
}

func (x *Exec) inline(fr *Frame, st *State, fn *ssa.Function, spec *FuncSpec, free []Value, args []Value, pos token.Pos) Value {
	key := x.P.funcKey(fn)
	x.inlined[key] = true
	fr.occ["inl:"+key]++
	prefix := fmt.Sprintf("%sinl:%s@%d/", fr.prefix, key, fr.occ["inl:"+key])
	nf := x.newFrame(fn, spec, prefix)
	nf.free = free
	nf.args = args
	for i, p := range fn.Params {
		nf.vals[p] = args[i]
		// callbacks passed down as closures keep working because Closure values
		// are called directly; parameter callbacks of the caller propagate:
		if fv, ok := args[i].(FuncV); ok && fv.Fn == nil {
			for n, cb := range fr.cbSpecs {
				_ = n
				_ = cb
			}
		}
	}
	x.stack = append(x.stack, fn)
	sub := st.clone()
	nf.preSt = st.clone()
	out, val := x.runBody(nf, sub)
	x.stack = x.stack[:len(x.stack)-1]
	// the caller continues only on normal return
	*st = *out
	return val
}

// havocCall models a call about which nothing is known.
func (x *Exec) havocCall(fr *Frame, st *State, rt types.Type, what string) Value {
	x.P.epoch++
	st.Epoch = x.P.epoch
	st.Heap = map[string]string{}
	for k := range x.leaves {
		x.recordWrite(k, "", true)
	}
	nf := x.em.freshConst("F", "Int")
	x.em.assume("(<= " + st.Frontier + " " + nf + ")")
	st.Frontier = nf
	if rt == nil {
		return nil
	}
	return x.freshValue(rt, "ret", st)
}

// modTarget is one evaluated item of a modifies clause.
type modTarget struct {
	whole bool   // whole leaf family
	key   string // leaf key prefix (whole) or exact root
	ptr   Ptr    // location
	elems bool   // all elements of the slice value
	slice SliceV
	ghost string
	typ   types.Type
}

// evalModifies evaluates modifies items in env (pre-state).
func (x *Exec) evalModifies(env *Env, items []*Expr) []modTarget {
	var out []modTarget
	for _, it := range items {
		out = append(out, x.evalModItem(env, it))
	}
	return out
}

func (x *Exec) evalModItem(env *Env, it *Expr) modTarget {
	// ghost global?
	if it.Kind == "ident" {
		if g, ok := x.P.specs.Ghosts[it.Name]; ok && !g.Field {
			return modTarget{whole: true, ghost: it.Name, key: "ghost:" + it.Name}
		}
	}
	if it.Kind == "class" {
		return modTarget{whole: true, key: it.Name}
	}
	if it.Kind == "allelems" {
		v := x.evalExpr(env, it.X)
		s, ok := v.(SliceV)
		if !ok {
			x.fail("modifies %s: not a slice", it)
		}
		return modTarget{elems: true, slice: s}
	}
	// type-qualified whole leaf: pkg.Type.field...
	if k, t, ok := x.wholeLeafKey(env, it); ok {
		return modTarget{whole: true, key: k, typ: t}
	}
	p := x.evalLValue(env, it)
	return modTarget{ptr: p}
}

// wholeLeafKey recognises pkg.Type.field[.field] (a leaf family for all objects).
func (x *Exec) wholeLeafKey(env *Env, e *Expr) (string, types.Type, bool) {
	var parts []string
	cur := e
	for cur.Kind == "sel" {
		parts = append([]string{cur.Name}, parts...)
		cur = cur.X
	}
	if cur.Kind != "ident" {
		return "", nil, false
	}
	pkg := x.P.pkgByName[cur.Name]
	if pkg == nil || len(parts) < 1 {
		return "", nil, false
	}
	obj := pkg.Scope().Lookup(parts[0])
	tn, ok := obj.(*types.TypeName)
	if !ok {
		return "", nil, false
	}
	if v, isVar := env.lookupVar(cur.Name); isVar {
		// a variable shadows the package only if it has such a field
		if p, ok := v.(Ptr); ok {
			if _, _, _, err := typeAtPath(p.Root, append(append([]Step{}, p.Path...), Step{Field: parts[0]})); err == nil {
				return "", nil, false
			}
		}
	}
	var path []Step
	for _, f := range parts[1:] {
		path = append(path, Step{Field: f})
	}
	t, key, _, err := typeAtPath(tn.Type(), path)
	if err != nil {
		x.fail("modifies: %v", err)
	}
	return key, t, true
}

// applyHavoc performs the state change of a contract call.
func (x *Exec) applyHavoc(st *State, pre *State, spec *FuncSpec, mods []modTarget) {
	if spec.ModAll {
		x.P.epoch++
		st.Epoch = x.P.epoch
		st.Heap = map[string]string{}
		for k := range x.leaves {
			x.recordWrite(k, "", true)
		}
		return
	}
	assigned := map[string]bool{}
	for _, gs := range spec.GhostExits {
		assigned[gs.Name] = true
	}
	for _, m := range mods {
		if m.ghost != "" && assigned[m.ghost] {
			// the callee changes this ghost only through its ghostexit
			// assignments (checked when its body is verified): no havoc
			continue
		}
		switch {
		case m.whole:
			// make sure every leaf under the declared family exists
			if m.typ != nil {
				var under [][2]string
				x.elemLeaves(m.typ, m.key, &under)
				for _, u := range under {
					x.leaf(u[0], strings.Count(u[0], "[]"), u[1]) // one index level per array on the path
				}
			}
			// every leaf whose key is m.key or extends it
			n := 0
			for _, k := range x.leafKeys() {
				if k == m.key || strings.HasPrefix(k, m.key+".") || strings.HasPrefix(k, m.key+"#") || strings.HasPrefix(k, m.key+"@") || strings.HasPrefix(k, m.key+"[") {
					st.Heap[k] = x.em.freshConst("Hc."+k, x.leaves[k].ArraySort())
					x.recordWrite(k, "", true)
					n++
				}
			}
			if n == 0 && m.ghost == "" {
				// leaf not yet touched: it will be created lazily with the new epoch
				// name; force distinctness from the pre-state by materialising now is
				// impossible without its sort, so remember it as pending.
				x.P.pendingWhole[m.key] = true
			}
			if m.ghost != "" {
				l := x.ghostLeaf(m.ghost)
				st.Heap[l.Key] = x.em.freshConst("Hg."+m.ghost, l.ArraySort())
				x.recordWrite(l.Key, "", true)
			}
		case m.elems:
			var leaves [][2]string
			x.elemLeaves(m.slice.Elem, x.regionOf(m.slice).key(), &leaves)
			for _, lf := range leaves {
				l := x.leaf(lf[0], 1, lf[1])
				cur := x.heapGet(st, l)
				f := x.em.freshConst("Hc.elems", l.InnerSort(0))
				st.Heap[lf[0]] = x.em.define("H.elems", l.ArraySort(), "(store "+cur+" "+x.regionOf(m.slice).eb()+" "+f+")")
				x.recordWrite(lf[0], x.regionOf(m.slice).eb(), false)
			}
		default:
			t, key, idx, err := typeAtPath(m.ptr.Root, m.ptr.Path)
			if err != nil {
				x.fail("modifies: %v", err)
			}
			if len(idx) > 0 {
				// an element location: the whole inner array of that object may change
				var under [][2]string
				x.elemLeaves(t, key, &under)
				for _, u := range under {
					l := x.leaf(u[0], len(idx), u[1])
					cur := x.heapGet(st, l)
					f := x.em.freshConst("Hc.elems", l.InnerSort(0))
					st.Heap[u[0]] = x.em.define("H.elems", l.ArraySort(), "(store "+cur+" "+m.ptr.Base+" "+f+")")
					x.recordWrite(u[0], m.ptr.Base, false)
				}
			} else {
				x.havocStore = true
				x.store(st, m.ptr, x.freshValue(t, "mod", st))
				x.havocStore = false
			}
		}
	}
}

func (x *Exec) leafKeys() []string {
	ks := make([]string, 0, len(x.leaves))
	for k := range x.leaves {
		ks = append(ks, k)
	}
	sort.Strings(ks)
	return ks
}

func (x *Exec) ghostLeaf(name string) *LeafInfo {
	key := "ghost:" + name
	if l, ok := x.leaves[key]; ok {
		return l
	}
	g := x.P.specs.Ghosts[name]
	gt := x.P.ghostType(g.Type)
	// ghost globals are stored as a 0-index leaf over a single ref (1)
	l := &LeafInfo{Key: key, NIdx: 0, Sort: gt.Sort(), Ghost: true}
	x.leaves[key] = l
	return l
}

// applyContract replaces a call by its contract.
func (x *Exec) applyContract(fr *Frame, st *State, spec *FuncSpec, key string, names []string, args []Value, rt types.Type, resNames []string, pos token.Pos) Value {
	x.usedSpecs[key] = true
	if spec.Assume {
		// name the file of an assumed contract that lives outside the repository
		if strings.HasSuffix(spec.File, ".spec") {
			x.assumedSpecs[key+" ["+filepath.Base(spec.File)+"]"] = true
		} else {
			x.assumedSpecs[key+" [assumed in "+filepath.Base(filepath.Dir(spec.File))+"/"+filepath.Base(spec.File)+"]"] = true
		}
	}
	if x.em.inQuant > 0 {
		x.fail("contract-specified function %s called under a quantifier in a contract", key)
	}
	fr.occ["call:"+key]++
	occ := fr.occ["call:"+key]
	pre := st.clone()
	env := x.newEnv(fr, pre, nil)
	env.noLocals = true
	env.pkg = x.P.specPkg(spec)
	for i, n := range names {
		if i < len(args) && n != "" && n != "_" {
			env.vars[n] = args[i]
		}
	}
	// 1. preconditions
	for _, c := range spec.Requires {
		p, alt := x.evalBoolAlt(env, c.Expr)
		if x.pure == 0 && !x.em.discard {
			o := &Obligation{Name: fmt.Sprintf("%s/%scall:%s@%d/pre:%s", x.topKey, fr.prefix, key, occ, c.Label), Kind: "call-pre",
				Guard: st.Reach, Prop: p, AltProp: alt, Pos: x.pos(pos), Src: c.Src, FnName: x.topKey, Inputs: x.inputs}
			// a precondition is assumed once asserted: every property the calling
			// function serves rests on it, whatever the clause itself is tagged with
			o.Props = append(o.Props, c.Props...)
			for _, dp := range x.defProps {
				if !contains(o.Props, dp) {
					o.Props = append(o.Props, dp)
				}
			}
			if x.inC11 && contains(c.Props, "C11") && !contains(o.Props, "C11") {
				o.Props = append(o.Props, "C11")
			}
			x.em.oblige(o)
		}
	}
	// assertions the calling function's contract attaches to this call site
	if fr.spec != nil && fr.spec.CallSites != nil && fr.isTop {
		site := fmt.Sprintf("%s@%d", key, occ)
		if cls := fr.spec.CallSites[site]; cls != nil {
			x.siteHits[site]++
			senv := x.newEnv(fr, pre, x.curBlock)
			for i, a := range args {
				senv.vars[fmt.Sprintf("arg%d", i)] = a
			}
			for _, c := range cls {
				p, alt := x.evalBoolAlt(senv, c.Expr)
				x.obligeAlt(fr, pre, fmt.Sprintf("callsite:%s/%s", site, c.Label), "call-site", p, alt, c)
			}
		}
	}
	// closures passed for parameters that have a callback contract must conform to it
	for i, n := range names {
		if i >= len(args) {
			break
		}
		cb := spec.Callbacks[n]
		if cb == nil {
			continue
		}
		// the callee may call back at any intermediate state of what it modifies
		cbState := st.clone()
		x.applyHavoc(cbState, pre, spec, x.evalModifies(env, spec.Modifies))
		if cl, ok := args[i].(Closure); ok {
			x.checkClosure(fr, cbState, cl, cb, key, pos, env)
		} else if fv, ok := args[i].(FuncV); ok && fv.Fn != nil {
			x.checkClosure(fr, cbState, Closure{Fn: fv.Fn}, cb, key, pos, env)
		} else {
			x.fail("callback argument %s of %s is not a visible function", n, key)
		}
	}
	// recursion: the termination measure must strictly decrease
	if spec.Decr != nil && key == x.topKey && x.pure == 0 && !x.em.discard && x.entryMeasure != "" {
		m := x.term(x.toBV64(x.evalExpr(env, spec.Decr.Expr)))
		x.em.oblige(&Obligation{Name: fmt.Sprintf("%s/%scall:%s@%d/variant", x.topKey, fr.prefix, key, occ), Kind: "variant",
			Guard: st.Reach, Prop: "(bvult " + m + " " + x.entryMeasure + ")", Pos: x.pos(pos), Src: spec.Decr.Src, FnName: x.topKey,
			Props: append(append([]string{}, spec.Decr.Props...), x.defProps...), Inputs: x.inputs})
	}
	// 2. havoc
	mods := x.evalModifies(env, spec.Modifies)
	// ghostset: assignment at callee entry; whatever the body (or a callback)
	// does to the ghost afterwards is covered by the havoc below
	for _, gs := range spec.GhostSets {
		x.setGhost(st, gs.Name, x.evalExpr(env, gs.Value))
	}
	x.applyHavoc(st, pre, spec, mods)
	nf := x.em.freshConst("F", "Int")
	x.em.assume("(<= " + pre.Frontier + " " + nf + ")")
	st.Frontier = nf
	// "allocates" is documentation only: objects created by the callee live at
	// references above the caller's frontier, which no array version constrains
	// (every version is unconstrained there until a store or an ensures says
	// otherwise), so leaving the arrays syntactically unchanged loses nothing
	// and keeps every fact about existing objects without quantified frames.
	for _, a := range spec.Allocates[:0] {
		// objects of these classes may have been created: old objects keep their leaves
		for _, k := range x.leafKeys() {
			if k == a || strings.HasPrefix(k, a+".") || strings.HasPrefix(k, a+"#") || strings.HasPrefix(k, a+"@") || strings.HasPrefix(k, a+"[") {
				l := x.leaves[k]
				old := x.heapGet(st, l)
				nw := x.em.freshConst("Ha."+k, l.ArraySort())
				q := x.em.fresh("r")
				x.em.assume(fmt.Sprintf("(forall ((%s Int)) (! (=> (<= %s %s) (= (select %s %s) (select %s %s))) :pattern ((select %s %s))))",
					q, q, pre.Frontier, nw, q, old, q, nw, q))
				st.Heap[k] = nw
				savedNew := x.storeNew
				x.storeNew = true
				x.recordWrite(k, x.em.fresh("new!alloc"), false)
				x.storeNew = savedNew
			}
		}
	}
	// 3. result
	var res Value
	if rt != nil {
		res = x.freshValue(rt, "ret."+shortKey(key), st)
		if sv, ok := res.(SliceV); ok {
			for _, c := range spec.Ensures {
				if strings.Contains(c.Src, "fresh(result)") {
					sv.New = true // nil or allocated by the callee on our behalf
				}
			}
			res = sv
		}
	}
	// 4. postconditions
	post := x.newEnv(fr, st, nil)
	post.noLocals = true
	post.pkg = env.pkg
	post.old = pre
	post.frontierPre = pre.Frontier
	for k, v := range env.vars {
		post.vars[k] = v
	}
	x.bindResults(post, res, resNames)
	for _, gs := range spec.GhostExits {
		x.setGhost(st, gs.Name, x.evalExpr(post, gs.Value))
	}
	for _, c := range spec.Ensures {
		p := x.evalBool(post, c.Expr)
		x.em.assume(implies(st.Reach, p))
	}
	for _, c := range spec.Assumes {
		p := x.evalBool(post, c.Expr)
		x.em.assume(implies(st.Reach, p))
		x.assumedClauses[key+" ["+c.Label+"]: "+c.Src] = true
	}
	if fr.isTop {
		x.sitePost[fmt.Sprintf("%s@%d", key, occ)] = st.clone()
		x.siteRes[fmt.Sprintf("%s@%d", key, occ)] = res
	}
	return res
}

func shortKey(k string) string {
	if i := strings.LastIndex(k, "."); i >= 0 {
		return k[i+1:]
	}
	return k
}

func (x *Exec) bindResults(env *Env, res Value, names []string) {
	if res == nil {
		return
	}
	if t, ok := res.(Tuple); ok {
		for i, v := range t.Vals {
			env.vars[fmt.Sprintf("result%d", i)] = v
			if i < len(names) && names[i] != "" && names[i] != "_" {
				env.vars[names[i]] = v
			}
		}
		return
	}
	env.vars["result"] = res
	env.vars["result0"] = res
	if len(names) == 1 && names[0] != "" && names[0] != "_" {
		env.vars[names[0]] = res
	}
}

func contains(xs []string, s string) bool {
	for _, v := range xs {
		if v == s {
			return true
		}
	}
	return false
}

// ---------- builtins ----------

func (x *Exec) builtin(fr *Frame, st *State, name string, c *ssa.CallCommon, args []Value, pos token.Pos) Value {
	intT := types.Typ[types.Int]
	switch name {
	case "len":
		switch v := args[0].(type) {
		case SliceV:
			return Scalar{T: v.Len, Typ: intT}
		case Scalar:
			if isString(v.Typ) {
				n := x.em.define("slen", "(_ BitVec 64)", "(slen "+v.T+")")
				x.em.assume("(bvule " + n + " " + maxCap + ")")
				return Scalar{T: n, Typ: intT}
			}
			if _, ok := v.Typ.Underlying().(*types.Map); ok {
				n := x.em.freshConst("maplen", "(_ BitVec 64)")
				x.em.assume("(bvule " + n + " " + maxCap + ")")
				return Scalar{T: n, Typ: intT}
			}
		case Ptr:
			if at, ok := v.elemType(x).Underlying().(*types.Array); ok {
				return Scalar{T: bvLit(uint64(at.Len()), 64), Typ: intT}
			}
		}
	case "cap":
		if v, ok := args[0].(SliceV); ok {
			return Scalar{T: v.Cap, Typ: intT}
		}
	case "append":
		st0 := c.Args[0].Type().Underlying().(*types.Slice)
		s := x.asSlice(args[0], st0.Elem())
		var e SliceV
		if sc, ok := args[1].(Scalar); ok && isString(sc.Typ) {
			e = x.stringToBytes(st, sc.T, st0.Elem()).(SliceV)
		} else {
			e = x.asSlice(args[1], st0.Elem())
		}
		return x.appendOp(fr, st, s, e, pos)
	case "copy":
		dt := c.Args[0].Type().Underlying().(*types.Slice)
		d := x.asSlice(args[0], dt.Elem())
		var s SliceV
		if sc, ok := args[1].(Scalar); ok && isString(sc.Typ) {
			s = x.stringToBytes(st, sc.T, dt.Elem()).(SliceV)
		} else {
			s = x.asSlice(args[1], dt.Elem())
		}
		return x.copyOp(fr, st, d, s)
	case "delete":
		x.mapDelete(st, args[0], args[1], c.Args[0].Type())
		return nil
	case "print", "println":
		return nil
	case "ssa:wrapnilchk":
		return args[0]
	case "min", "max":
		t := c.Args[0].Type()
		r := args[0]
		for _, a := range args[1:] {
			op := token.LSS
			if name == "max" {
				op = token.GTR
			}
			cnd := x.term(x.binop(fr, st, op, r, a, t, pos))
			r = x.iteValue(cnd, r, a)
		}
		return r
	}
	x.fail("unsupported builtin %s at %s", name, x.pos(pos))
	return nil
}

// checkClosure verifies that a closure passed as a callback conforms to the
// callback contract: its body is executed once, at the call site's state,
// for arbitrary arguments satisfying the callback's requires; everything it
// writes must be covered by the callback's modifies clause, and its own
// safety obligations are checked under those assumptions.
func (x *Exec) checkClosure(fr *Frame, st *State, cl Closure, cb *FuncSpec, callee string, pos token.Pos, outer *Env) {
	if x.pure > 0 || x.em.discard {
		return
	}
	fn := cl.Fn
	scratch := st.clone()
	g := x.em.freshConst("cbreach", "Bool")
	scratch.Reach = x.em.define("R", "Bool", and(st.Reach, g))
	var args []Value
	env := x.newEnv(fr, scratch, nil)
	env.noLocals = true
	if outer != nil {
		for k, v := range outer.vars {
			env.vars[k] = v
		}
		env.pkg = outer.pkg
	}
	for i, p := range fn.Params {
		v := x.freshValue(p.Type(), "cb."+p.Name(), scratch)
		args = append(args, v)
		if i < len(cb.Params) {
			env.vars[cb.Params[i]] = v
		}
		env.vars[p.Name()] = v
	}
	for _, c := range cb.Requires {
		x.em.assume(implies(scratch.Reach, x.evalBool(env, c.Expr)))
	}
	key := x.P.funcKey(fn)
	fr.occ["cb:"+key]++
	nf := x.newFrame(fn, x.P.specs.Funcs[key], fmt.Sprintf("%scb:%s@%d/", fr.prefix, key, fr.occ["cb:"+key]))
	nf.free = cl.Bindings
	for i, p := range fn.Params {
		nf.vals[p] = args[i]
	}
	saved := x.written
	x.written = map[string]*WriteSet{}
	x.stack = append(x.stack, fn)
	nf.preSt = scratch.clone()
	cout, cval := x.runBody(nf, scratch)
	x.stack = x.stack[:len(x.stack)-1]
	wrote := x.written
	x.written = saved
	// the callback's postconditions, as obligations on the closure
	ens := cb.Ensures
	if fr.spec != nil {
		// what the passing function itself demands of its closure
		ens = append(append([]*Clause{}, ens...), fr.spec.CbEnsures...)
	}
	if len(ens) > 0 {
		penv := x.newEnv(fr, cout, nil)
		penv.noLocals = true
		penv.old = nf.preSt
		for k, v := range env.vars {
			penv.vars[k] = v
		}
		x.bindResults(penv, cval, resultNames(fn.Signature))
		// clauses of the passing function may also name its own locals - in particular the variables the
		// closure captures, read in the state the closure leaves behind (old(): the state it found)
		lenv := x.newEnv(fr, cout, x.curBlock)
		lenv.old = nf.preSt
		for k, v := range penv.vars {
			lenv.vars[k] = v
		}
		for ci, c := range ens {
			ev := penv
			if ci >= len(cb.Ensures) {
				ev = lenv
			}
			p := x.evalBool(ev, c.Expr)
			o := &Obligation{Name: fmt.Sprintf("%s/%scb:%s/ensures:%s", x.topKey, fr.prefix, key, c.Label), Kind: "ensures", Guard: cout.Reach, Prop: p,
				Pos: x.pos(pos), Src: c.Src, FnName: x.topKey, Inputs: x.inputs}
			o.Props = append(append([]string{}, c.Props...), x.defProps...)
			x.em.oblige(o)
		}
	}
	// frame: every leaf the closure writes (outside objects it allocated itself) must be declared
	mods := x.evalModifies(env, cb.Modifies)
	var ks []string
	for k := range wrote {
		ks = append(ks, k)
	}
	sort.Strings(ks)
	for _, k := range ks {
		ws := wrote[k]
		onlyNew := !ws.Whole
		for _, b := range ws.Bases {
			if !ws.New[b] {
				onlyNew = false
			}
		}
		if onlyNew {
			continue
		}
		ok := cb.ModAll
		for _, m := range mods {
			if m.whole && (k == m.key || strings.HasPrefix(k, m.key+".") || strings.HasPrefix(k, m.key+"#") || strings.HasPrefix(k, m.key+"@") || strings.HasPrefix(k, m.key+"[")) {
				ok = true
			}
		}
		if !ok {
			o := &Obligation{Name: fmt.Sprintf("%s/%scb:%s/frame:%s", x.topKey, fr.prefix, key, k), Kind: "frame", Guard: st.Reach, Prop: "false",
				Pos: x.pos(pos), Src: "callback passed to " + callee + " writes " + k + ", which the callback contract does not allow", FnName: x.topKey, Props: x.defProps, Inputs: x.inputs}
			x.em.oblige(o)
		}
	}
}

func callerPkg(fn *ssa.Function) string {
	for fn != nil {
		if fn.Pkg != nil {
			return fn.Pkg.Pkg.Name()
		}
		fn = fn.Parent()
	}
	return ""
}
