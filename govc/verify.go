package main

import (
	"fmt"
	"os"
	"go/types"
	"runtime/debug"
	"sort"
	"strings"

	"golang.org/x/tools/go/ssa"
)

type FuncResult struct {
	Key          string
	Em           *Emitter
	Obls         []*Obligation
	Notes        []string
	Err          string
	AssumedPanics []string
	UsedSpecs    []string
	AssumedSpecs []string
	Inlined      []string
	AssumedClauses []string
	Secs         float64
	Bounded      bool
	regionTerms  map[string]string
}

func (P *Prog) verifyFunc(key string, c11 bool) (res *FuncResult) {
	res = &FuncResult{Key: key}
	fn := P.fnByKey[key]
	spec := P.specs.Funcs[key]
	if spec != nil && spec.Lemma {
		return P.verifyLemma(key, spec)
	}
	if fn == nil {
		res.Err = "contract for " + key + " does not bind to any function in /repo (deleted or renamed)"
		return
	}
	if fn.Blocks == nil {
		res.Err = "function " + key + " has no body"
		return
	}
	x := &Exec{P: P, em: newEmitter(), top: fn, topSpec: spec, topKey: key, leaves: map[string]*LeafInfo{},
		written: map[string]*WriteSet{}, notes: map[string]bool{}, assumedPanics: map[string]bool{}, strLits: map[string]string{},
		siteHits: map[string]int{}, sitePost: map[string]*State{}, siteRes: map[string]Value{}, usedSpecs: map[string]bool{}, assumedSpecs: map[string]bool{}, inlined: map[string]bool{}, inC11: c11, assumedClauses: map[string]bool{}, preds: map[string]*predDef{}, unfolded: map[string]bool{}, transferred: map[string]string{}, xferOwner: map[string]string{}, borrow: map[string][2]string{}, wfDone: map[string]bool{}}
	res.Em = x.em
	if spec != nil {
		x.defProps = spec.Props
	}
	defer func() {
		if r := recover(); r != nil {
			if ee, ok := r.(execError); ok {
				res.Err = ee.msg
			} else {
				res.Err = fmt.Sprintf("internal error: %v\n%s", r, debug.Stack())
			}
		}
		for n := range x.notes {
			res.Notes = append(res.Notes, n)
		}
		sort.Strings(res.Notes)
		for n := range x.assumedPanics {
			res.AssumedPanics = append(res.AssumedPanics, n)
		}
		sort.Strings(res.AssumedPanics)
		for n := range x.usedSpecs {
			res.UsedSpecs = append(res.UsedSpecs, n)
		}
		sort.Strings(res.UsedSpecs)
		for n := range x.assumedSpecs {
			res.AssumedSpecs = append(res.AssumedSpecs, n)
		}
		sort.Strings(res.AssumedSpecs)
		for n := range x.inlined {
			res.Inlined = append(res.Inlined, n)
		}
		for n := range x.assumedClauses {
			res.AssumedClauses = append(res.AssumedClauses, n)
		}
		sort.Strings(res.AssumedClauses)
		sort.Strings(res.Inlined)
	}()

	x.F0 = "F0"
	x.em.declare("F0", "Int")
	x.em.assume("(<= 1 F0)")
	st := &State{Reach: "true", Heap: map[string]string{}, Epoch: 0, Frontier: "F0"}
	fr := x.newFrame(fn, spec, "")
	fr.isTop = true
	for _, p := range fn.Params {
		v := x.freshValue(p.Type(), p.Name(), st)
		fr.vals[p] = v
		x.addInputs(p.Name(), v)
		if _, ok := p.Type().Underlying().(*types.Signature); ok && spec != nil {
			if cb := spec.Callbacks[p.Name()]; cb != nil {
				fr.cbSpecs[p.Name()] = cb
			}
		}
		_ = 0
	}
	for _, fv := range fn.FreeVars {
		fr.free = append(fr.free, x.freshValue(fv.Type(), fv.Name(), st))
	}
	x.entry = st.clone()
	x.ghostInputs(st)
	x.addElemInputs(fr, st, fn)
	env := x.newEnv(fr, st, fn.Blocks[0])
	if spec != nil {
		for _, c := range spec.Requires {
			lz := x.lazyApps
			p, alt := x.evalBoolAlt(env, c.Expr)
			x.em.assume(p)
			if alt != "" && x.lazyApps != lz {
				x.em.assume(alt) // the equivalent form with opaque functions unfolded
			}
		}
		for _, c := range spec.EntryAssumes {
			x.em.assume(x.evalBool(env, c.Expr))
			x.assumedClauses[key+" (at entry) ["+c.Label+"]: "+c.Src] = true
		}
	}
	if spec != nil {
		for _, gs := range spec.GhostSets {
			x.setGhost(st, gs.Name, x.evalExpr(env, gs.Value))
		}
	}
	if spec != nil && spec.Decr != nil {
		x.entryMeasure = x.em.define("measure", "(_ BitVec 64)", x.term(x.toBV64(x.evalExpr(env, spec.Decr.Expr))))
	}
	res.regionTerms = map[string]string{}
	if P.known != nil {
		for _, f := range P.known.Findings {
			if f.Region == "" || !strings.HasPrefix(f.Obligation, key+"/") {
				continue
			}
			func() {
				defer func() {
					if r := recover(); r != nil {
						res.Notes = append(res.Notes, fmt.Sprintf("region %q: %v", f.Region, r))
					}
				}()
				re, err := parseExpr(f.Region)
				if err != nil {
					panic(err)
				}
				res.regionTerms[f.Region] = x.evalBool(env, re)
			}()
		}
	}
	x.stack = []*ssa.Function{fn}
	afterEntry := st.clone()
	localHits := map[string]int{}
	exitChecks := func(k, n int, r *retInfo) {
		if spec == nil {
			return
		}
		sfx := ""
		if n > 1 {
			sfx = fmt.Sprintf("#%d", k+1)
		}
		x.em.setTag(r.blk)
		// locals named in an ensures clause are read at this return point
		post := x.newEnv(fr, r.st, fn.Blocks[r.blk])
		post.old = x.entry
		x.bindResults(post, r.val, resultNames(fn.Signature))
		// a ghost assigned by ghostexit must not be changed by the body otherwise
		// (callers replay the assignments on their own pre-state value)
		seen := map[string]bool{}
		for _, gs := range spec.GhostExits {
			if seen[gs.Name] {
				continue
			}
			seen[gs.Name] = true
			l := x.ghostLeaf(gs.Name)
			if a, b := x.heapGet(r.st, l), x.heapGet(afterEntry, l); a != b {
				x.oblige(fr, r.st, "ghostexit-only:"+gs.Name+sfx, "frame", eq("(select "+a+" 1)", "(select "+b+" 1)"), nil)
			}
		}
		for _, gs := range spec.GhostExits {
			x.setGhost(r.st, gs.Name, x.evalExpr(post, gs.Value))
		}
		for _, c := range spec.Ensures {
			p, alt := x.evalBoolAlt(post, c.Expr)
			x.obligeAlt(fr, r.st, "ensures:"+c.Label+sfx, "ensures", p, alt, c)
		}
		for _, c := range spec.EnsuresLocal {
			// skipped at returns the locals it names do not reach (the code that
			// defines them was not executed on that path)
			func() {
				defer func() {
					if e := recover(); e != nil {
						if ee, ok := e.(execError); ok && (strings.Contains(fmt.Sprint(ee), "unknown identifier") || strings.Contains(fmt.Sprint(ee), "cannot use")) {
							return
						}
						panic(e)
					}
				}()
				p, alt := x.evalBoolAlt(post, c.Expr)
				x.obligeAlt(fr, r.st, "ensureslocal:"+c.Label+sfx, "ensures", p, alt, c)
				localHits[c.Label]++
			}()
		}
	}
	// which blocks can reach which (for slicing the per-obligation scripts)
	x.em.anc = ancestors(fn)
	out, _ := x.runBodyWith(fr, st, exitChecks)
	x.em.setTag(-2)
	if spec != nil {
		for _, c := range spec.EnsuresLocal {
			if localHits[c.Label] == 0 {
				// a clause over locals that no return path reaches would be checked nowhere
				x.fail("ensureslocal [%s] names a local that is in scope at no return of %s", c.Label, key)
			}
		}
	}
	if spec != nil {
		for site := range spec.CallSites {
			if x.siteHits[site] == 0 {
				// the call the clause is attached to is not in the code (any more)
				x.fail("callsite clause for %s matches no call in %s", site, key)
			}
		}
	}
	if spec != nil {
		x.frameObligations(fr, out, spec, "")
	}
	// vacuity: the normal exit must be reachable under the assumptions
	if out.Reach != "false" {
		x.em.oblige(&Obligation{Name: key + "/cover:return", Kind: "cover", Guard: out.Reach, Prop: "true", Cover: true, FnName: key, Props: x.defProps})
	}
	_, obls := x.em.script(0)
	res.Obls = obls
	return
}

func (x *Exec) addInputs(name string, v Value) {
	switch s := v.(type) {
	case Scalar:
		x.inputs = append(x.inputs, NamedTerm{name, s.T})
	case Ptr:
		x.inputs = append(x.inputs, NamedTerm{name, s.Base})
	case SliceV:
		x.inputs = append(x.inputs, NamedTerm{"len(" + name + ")", s.Len}, NamedTerm{"cap(" + name + ")", s.Cap})
	case Record:
		st, _ := structOf(s.Typ)
		for i, f := range s.Fields {
			if len(x.inputs) < 60 {
				x.addInputs(name+"."+st.Field(i).Name(), f)
			}
		}
	}
}

// frameObligations: nothing outside the modifies clause changed.
func (x *Exec) frameObligations(fr *Frame, out *State, spec *FuncSpec, sfx string) {
	if spec.ModAll {
		return
	}
	env := x.newEnv(fr, x.entry, nil)
	mods := x.evalModifies(env, spec.Modifies)
	wholeOK := func(key string) bool {
		for _, m := range mods {
			if m.whole && (key == m.key || strings.HasPrefix(key, m.key+".") || strings.HasPrefix(key, m.key+"#") || strings.HasPrefix(key, m.key+"@") || strings.HasPrefix(key, m.key+"[")) {
				return true
			}
		}
		return false
	}
	var keys []string
	for k := range x.written {
		keys = append(keys, k)
	}
	sort.Strings(keys)
	for _, k := range keys {
		if wholeOK(k) || k == "ghost:rangevisited" || k == "ghost:rangestart" {
			continue // the iteration ghosts are the verifier's own bookkeeping
		}
		if onlyNewWrites(x.written[k]) {
			continue // written only inside objects this function allocated itself
		}
		if os.Getenv("GOVC_DEBUG") != "" {
			fmt.Fprintf(os.Stderr, "frame %s: whole=%v bases=%v new=%v\n", k, x.written[k].Whole, x.written[k].Bases, x.written[k].New)
		}
		lf := x.leaves[k]
		cur := x.heapGet(out, lf)
		init := x.heapGet(x.entry, lf)
		if cur == init {
			continue
		}
		var bases []string
		for _, m := range mods {
			if m.whole {
				continue
			}
			if m.elems {
				var leaves [][2]string
				x.elemLeaves(m.slice.Elem, x.regionOf(m.slice).key(), &leaves)
				for _, l2 := range leaves {
					if l2[0] == k {
						bases = append(bases, x.regionOf(m.slice).eb())
					}
				}
				continue
			}
			t, pk, _, err := typeAtPath(m.ptr.Root, m.ptr.Path)
			if err != nil {
				x.fail("modifies: %v", err)
			}
			var under [][2]string
			x.leavesUnder(t, pk, &under)
			for _, u := range under {
				if u[0] == k {
					bases = append(bases, m.ptr.Base)
				}
			}
		}
		r := x.em.freshConst("fr", "Int")
		conds := []string{"(< 0 " + r + ")", "(<= " + r + " F0)"}
		for _, b := range bases {
			conds = append(conds, not(eq(r, b)))
		}
		prop := implies(and(conds...), eq("(select "+cur+" "+r+")", "(select "+init+" "+r+")"))
		x.oblige(fr, out, "frame:"+k+sfx, "frame", prop, nil)
	}
}

// leavesUnder lists the leaves (key, sort) of a value of type t stored at key.
func (x *Exec) leavesUnder(t types.Type, key string, out *[][2]string) {
	x.elemLeaves(t, key, out)
}

func (x *Exec) ghostInputs(st *State) {
	var names []string
	for n, g := range x.P.specs.Ghosts {
		if !g.Field && g.Type.Kind != "maptype" {
			names = append(names, n)
		}
	}
	sort.Strings(names)
	for _, n := range names {
		l := x.ghostLeaf(n)
		x.inputs = append(x.inputs, NamedTerm{"ghost " + n, "(select " + x.heapGet(st, l) + " 1)"})
	}
}

// verifyLemma checks requires ==> ensures for a bodiless lemma.
func (P *Prog) verifyLemma(key string, spec *FuncSpec) (res *FuncResult) {
	res = &FuncResult{Key: key}
	x := &Exec{P: P, em: newEmitter(), topSpec: spec, topKey: key, leaves: map[string]*LeafInfo{},
		written: map[string]*WriteSet{}, notes: map[string]bool{}, assumedPanics: map[string]bool{}, strLits: map[string]string{},
		siteHits: map[string]int{}, sitePost: map[string]*State{}, siteRes: map[string]Value{}, usedSpecs: map[string]bool{}, assumedSpecs: map[string]bool{}, inlined: map[string]bool{}, assumedClauses: map[string]bool{}, preds: map[string]*predDef{}, unfolded: map[string]bool{}, transferred: map[string]string{}, xferOwner: map[string]string{}, borrow: map[string][2]string{}, wfDone: map[string]bool{}}
	res.Em = x.em
	x.defProps = spec.Props
	defer func() {
		if r := recover(); r != nil {
			if ee, ok := r.(execError); ok {
				res.Err = ee.msg
			} else {
				res.Err = fmt.Sprintf("internal error: %v\n%s", r, debug.Stack())
			}
		}
	}()
	x.F0 = "F0"
	x.em.declare("F0", "Int")
	x.em.assume("(<= 1 F0)")
	st := &State{Reach: "true", Heap: map[string]string{}, Epoch: 0, Frontier: "F0"}
	x.entry = st.clone()
	fr := &Frame{occ: map[string]int{}, vals: map[ssa.Value]Value{}, names: map[string][]ssa.Value{}, nilok: map[string]bool{}, cbSpecs: map[string]*FuncSpec{}}
	env := x.newEnv(nil, st, nil)
	env.fr = nil
	pkgName := strings.TrimPrefix(key, "lemma:")
	if i := strings.Index(pkgName, "."); i > 0 {
		env.pkg = P.pkgByName[pkgName[:i]]
	}
	for _, p := range spec.LemmaParams {
		t := P.resolveType(env.pkg, p.Type)
		v := x.freshValue(t, p.Name, st)
		env.vars[p.Name] = v
		x.addInputs(p.Name, v)
	}
	x.ghostInputs(st)
	for _, c := range spec.Requires {
		x.em.assume(x.evalBool(env, c.Expr))
	}
	env.old = x.entry
	for _, c := range spec.Ensures {
		p, alt := x.evalBoolAlt(env, c.Expr)
		x.obligeAlt(fr, st, "ensures:"+c.Label, "lemma", p, alt, c)
	}
	x.em.oblige(&Obligation{Name: key + "/cover:requires", Kind: "cover", Guard: "true", Prop: "true", Cover: true, FnName: key, Props: x.defProps})
	_, obls := x.em.script(0)
	res.Obls = obls
	return
}

// ancestors[b] = set of blocks from which b is reachable (b included).
func ancestors(fn *ssa.Function) map[int]map[int]bool {
	anc := map[int]map[int]bool{}
	for _, b := range fn.Blocks {
		set := map[int]bool{b.Index: true}
		work := []*ssa.BasicBlock{b}
		for len(work) > 0 {
			n := work[len(work)-1]
			work = work[:len(work)-1]
			for _, p := range n.Preds {
				if !set[p.Index] {
					set[p.Index] = true
					work = append(work, p)
				}
			}
		}
		anc[b.Index] = set
	}
	return anc
}
