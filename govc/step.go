package main

import (
	"fmt"
	"go/token"
	"go/types"
	"strings"

	"golang.org/x/tools/go/ssa"
)

func (x *Exec) step(fr *Frame, st *State, in ssa.Instruction) {
	switch i := in.(type) {
	case *ssa.DebugRef:
		return
	case *ssa.Alloc:
		fr.vals[i] = x.alloc(st, i.Type().(*types.Pointer).Elem(), i.Comment)
	case *ssa.FieldAddr:
		p := x.asPtr(x.value(fr, i.X))
		x.nilCheck(fr, st, p, i.Pos())
		stt, _ := structOf(p.elemType(x))
		np := Ptr{Base: p.Base, Root: p.Root, Fresh: p.Fresh, New: p.New}
		np.Path = append(append([]Step{}, p.Path...), Step{Field: stt.Field(i.Field).Name()})
		fr.vals[i] = np
	case *ssa.Field:
		r, ok := x.value(fr, i.X).(Record)
		if !ok {
			x.fail("Field of non-record %T", x.value(fr, i.X))
		}
		fr.vals[i] = r.Fields[i.Field]
	case *ssa.IndexAddr:
		fr.vals[i] = x.indexAddr(fr, st, i)
	case *ssa.Index:
		if isString(i.X.Type()) {
			sv := x.term(x.value(fr, i.X))
			idx := x.toU64(x.value(fr, i.Index), i.Index.Type())
			x.safety(fr, st, "bounds", "strindex", "(bvult "+idx+" (slen "+sv+"))", i.Pos())
			fr.vals[i] = Scalar{T: "(select (sarr " + sv + ") " + idx + ")", Typ: i.Type()}
			return
		}
		x.fail("Index on array value unsupported at %s", x.pos(i.Pos()))
	case *ssa.UnOp:
		fr.vals[i] = x.unop(fr, st, i)
	case *ssa.BinOp:
		fr.vals[i] = x.nameValue(x.binop(fr, st, i.Op, x.value(fr, i.X), x.value(fr, i.Y), i.X.Type(), i.Pos()), "")
	case *ssa.Store:
		p := x.asPtr(x.value(fr, i.Addr))
		x.nilCheck(fr, st, p, i.Pos())
		nv := x.coerce(x.value(fr, i.Val), p.elemType(x))
		x.hookNew = nv
		x.codeAccess(fr, st, p, true, i.Pos())
		x.hookNew = nil
		x.store(st, p, nv)
	case *ssa.Phi:
		return
	case *ssa.ChangeType:
		fr.vals[i] = x.retype(x.value(fr, i.X), i.Type())
	case *ssa.Convert:
		fr.vals[i] = x.convert(fr, st, x.value(fr, i.X), i.X.Type(), i.Type())
	case *ssa.MakeInterface:
		v := x.value(fr, i.X)
		ifc := Iface{Tag: x.typeTag(i.X.Type()), Typ: i.Type(), Dyn: v}
		switch pv := v.(type) {
		case Ptr:
			if len(pv.Path) == 0 {
				ifc.Ref = pv.Base
			} else {
				ifc.Ref = x.em.freshConst("ifref", "Int")
			}
		default:
			ifc.Ref = "0"
		}
		fr.vals[i] = ifc
	case *ssa.ChangeInterface:
		fr.vals[i] = x.value(fr, i.X)
	case *ssa.TypeAssert:
		fr.vals[i] = x.typeAssert(fr, st, i)
	case *ssa.Extract:
		t, ok := x.value(fr, i.Tuple).(Tuple)
		if !ok {
			x.fail("Extract from %T", x.value(fr, i.Tuple))
		}
		fr.vals[i] = t.Vals[i.Index]
	case *ssa.MakeClosure:
		c := Closure{Fn: i.Fn.(*ssa.Function)}
		for _, b := range i.Bindings {
			c.Bindings = append(c.Bindings, x.value(fr, b))
		}
		fr.vals[i] = c
	case *ssa.MakeMap:
		r := x.newRef(st)
		mt := i.Type().Underlying().(*types.Map)
		x.mapInit(st, mt, r)
		fr.vals[i] = Scalar{T: r, Typ: i.Type()}
	case *ssa.MakeSlice:
		fr.vals[i] = x.makeSlice(fr, st, i)
	case *ssa.Slice:
		fr.vals[i] = x.sliceOp(fr, st, i)
	case *ssa.Lookup:
		fr.vals[i] = x.lookup(fr, st, i)
	case *ssa.MapUpdate:
		x.mapUpdate(fr, st, x.value(fr, i.Map), x.value(fr, i.Key), x.value(fr, i.Value), i.Map.Type())
	case *ssa.Range:
		fr.vals[i] = Tuple{Vals: []Value{x.value(fr, i.X)}}
		if mt, ok := i.X.Type().Underlying().(*types.Map); ok && x.mapKeySort(mt) == "(_ BitVec 64)" && x.P.specs.Ghosts["rangevisited"] != nil {
			// ghost bookkeeping of the iteration: which keys were in the map when it
			// started and which ones have been produced so far
			m := x.term(x.value(fr, i.X))
			gt := x.P.ghostType(x.P.specs.Ghosts["rangevisited"].Type)
			x.setGhost(st, "rangestart", GhostArr{T: "(select " + x.heapGet(st, x.mapDomLeaf(mt)) + " " + m + ")", Sort: gt.Sort(), Typ: gt})
			x.setGhost(st, "rangevisited", Scalar{T: "$empty"})
		}
	case *ssa.Next:
		fr.vals[i] = x.next(fr, st, i)
	case *ssa.Call:
		v := x.call(fr, st, &i.Call, i.Pos(), i)
		if v != nil {
			fr.vals[i] = x.nameValue(v, i.Name())
		}
	case *ssa.Defer:
		d := deferred{call: &i.Call, pos: i.Pos()}
		for _, a := range i.Call.Args {
			d.args = append(d.args, x.value(fr, a))
		}
		if !i.Call.IsInvoke() {
			d.fnv = x.value(fr, i.Call.Value)
		} else {
			d.fnv = x.value(fr, i.Call.Value)
		}
		if i.Block() != fr.fn.Blocks[0] {
			x.fail("defer outside the entry block unsupported")
		}
		fr.defers = append(fr.defers, d)
	case *ssa.RunDefers:
		for k := len(fr.defers) - 1; k >= 0; k-- {
			d := fr.defers[k]
			x.callWith(fr, st, d.call, d.fnv, d.args, d.pos, nil)
		}
	case *ssa.Go:
		x.note("go statement at %s: spawned goroutine body is not interleaved (its own contract is checked separately)", x.pos(i.Pos()))
	case *ssa.If:
		b := i.Block()
		c := x.term(x.value(fr, i.Cond))
		t0 := x.em.define("E", "Bool", and(st.Reach, c))
		t1 := x.em.define("E", "Bool", and(st.Reach, not(c)))
		if b.Succs[0] == b.Succs[1] {
			fr.edge[[2]int{b.Index, b.Succs[0].Index}] = st.Reach
		} else {
			fr.edge[[2]int{b.Index, b.Succs[0].Index}] = t0
			fr.edge[[2]int{b.Index, b.Succs[1].Index}] = t1
		}
	case *ssa.Jump:
		b := i.Block()
		fr.edge[[2]int{b.Index, b.Succs[0].Index}] = st.Reach
	case *ssa.Return:
		var val Value
		if len(i.Results) == 1 {
			val = x.coerce(x.value(fr, i.Results[0]), fr.fn.Signature.Results().At(0).Type())
		} else if len(i.Results) > 1 {
			t := Tuple{}
			for k, r := range i.Results {
				t.Vals = append(t.Vals, x.coerce(x.value(fr, r), fr.fn.Signature.Results().At(k).Type()))
			}
			val = t
		}
		fr.rets = append(fr.rets, retInfo{st: st.clone(), val: val, blk: i.Block().Index})
	case *ssa.Panic:
		x.panicInstr(fr, st, i)
	default:
		x.fail("unsupported instruction %T (%s) at %s", in, in, x.pos(in.Pos()))
	}
}

func (p Ptr) elemType(x *Exec) types.Type {
	t, _, _, err := typeAtPath(p.Root, p.Path)
	if err != nil {
		x.fail("%v", err)
	}
	return t
}

func (x *Exec) asPtr(v Value) Ptr {
	switch p := v.(type) {
	case Ptr:
		return p
	case Scalar:
		if p.T == "nil" {
			return Ptr{Base: "0"}
		}
		if pt, ok := p.Typ.Underlying().(*types.Pointer); ok {
			return Ptr{Base: p.T, Root: pt.Elem()}
		}
	}
	x.fail("expected pointer, got %T", v)
	return Ptr{}
}

func (x *Exec) newRef(st *State) string {
	r := x.em.define("new", "Int", "(+ "+st.Frontier+" 1)")
	st.Frontier = r
	return r
}

// alloc creates a zero-initialised object of type t.
func (x *Exec) alloc(st *State, t types.Type, hint string) Value {
	r := x.newRef(st)
	p := Ptr{Base: r, Root: t, Fresh: true, New: true}
	x.zeroInit(st, t, p)
	return p
}

func (x *Exec) zeroInit(st *State, t types.Type, p Ptr) {
	if el, ok := isArrayRoot(t); ok {
		// zero the whole backing array for each leaf of the element type
		x.fillArray(st, el, rootKey(t), p.Base, nil)
		return
	}
	x.store(st, p, x.zeroValue(t))
}

// fillArray sets every element of the backing array base to zero.
func (x *Exec) fillArray(st *State, el types.Type, key, base string, _ []string) {
	el = types.Unalias(el)
	switch u := el.Underlying().(type) {
	case *types.Struct:
		for i := 0; i < u.NumFields(); i++ {
			x.fillArray(st, u.Field(i).Type(), key+"."+u.Field(i).Name(), base, nil)
		}
		return
	case *types.Slice:
		for _, sfx := range []struct{ s, sort, z string }{{"#base", "Int", "0"}, {"#off", "(_ BitVec 64)", bvLit(0, 64)}, {"#len", "(_ BitVec 64)", bvLit(0, 64)}, {"#cap", "(_ BitVec 64)", bvLit(0, 64)}} {
			x.constArray(st, key+sfx.s, base, sfx.sort, sfx.z)
		}
		return
	case *types.Interface:
		x.constArray(st, key+"#tag", base, "Int", "0")
		x.constArray(st, key+"#ref", base, "Int", "0")
		return
	case *types.Array:
		x.fail("array of arrays unsupported")
	}
	x.constArray(st, key, base, sortOf(el), x.term(x.zeroValue(el)))
}

func (x *Exec) constArray(st *State, key, base, sort, zero string) {
	saved := x.storeNew
	x.storeNew = true
	defer func() { x.storeNew = saved }()
	l := x.leaf(key, 1, sort)
	cur := x.heapGet(st, l)
	inner := fmt.Sprintf("((as const (Array (_ BitVec 64) %s)) %s)", sort, zero)
	st.Heap[key] = x.em.define("H."+key, l.ArraySort(), "(store "+cur+" "+base+" "+inner+")")
	x.recordWrite(key, base, false)
}

func (x *Exec) indexAddr(fr *Frame, st *State, i *ssa.IndexAddr) Value {
	idx := x.toU64(x.value(fr, i.Index), i.Index.Type())
	switch v := x.value(fr, i.X).(type) {
	case SliceV:
		x.safety(fr, st, "bounds", "index", "(bvult "+idx+" "+v.Len+")", i.Pos())
		off := elemAt(v.Off, idx)
		return Ptr{Base: x.regionOf(v).eb(), Root: x.regionOf(v).root(), Path: []Step{{Idx: off}}, Fresh: true, Own: v.Own, New: v.New}
	case Ptr: // pointer to array
		x.nilCheck(fr, st, v, i.Pos())
		at, ok := v.elemType(x).Underlying().(*types.Array)
		if !ok {
			x.fail("IndexAddr on pointer to %s", typeKey(v.elemType(x)))
		}
		x.safety(fr, st, "bounds", "index", "(bvult "+idx+" "+bvLit(uint64(at.Len()), 64)+")", i.Pos())
		np := Ptr{Base: v.Base, Root: v.Root, Fresh: v.Fresh, New: v.New}
		np.Path = append(append([]Step{}, v.Path...), Step{Idx: idx})
		return np
	}
	x.fail("IndexAddr on %T", x.value(fr, i.X))
	return nil
}

// toU64 converts an integer value of type t to a 64-bit index term.
func (x *Exec) toU64(v Value, t types.Type) string {
	s, ok := v.(Scalar)
	if !ok {
		x.fail("index is %T", v)
	}
	w, signed, ok := bvWidth(t)
	if !ok {
		x.fail("index type %s", typeKey(t))
	}
	if w == 64 {
		return s.T
	}
	if signed {
		return fmt.Sprintf("((_ sign_extend %d) %s)", 64-w, s.T)
	}
	return fmt.Sprintf("((_ zero_extend %d) %s)", 64-w, s.T)
}

func (x *Exec) unop(fr *Frame, st *State, i *ssa.UnOp) Value {
	v := x.value(fr, i.X)
	switch i.Op {
	case token.MUL:
		p := x.asPtr(v)
		x.nilCheck(fr, st, p, i.Pos())
		if at, isArr := p.elemType(x).Underlying().(*types.Array); isArr && at.Len() > 32 {
			x.fail("load of array value at %s", x.pos(i.Pos()))
		}
		x.codeAccess(fr, st, p, false, i.Pos())
		return x.nameValue(x.load(st, p), i.Name())
	case token.NOT:
		return Scalar{T: not(x.term(v)), Typ: i.Type()}
	case token.SUB:
		return Scalar{T: "(bvneg " + x.term(v) + ")", Typ: i.Type()}
	case token.XOR:
		return Scalar{T: "(bvnot " + x.term(v) + ")", Typ: i.Type()}
	}
	x.fail("unsupported unary %s at %s", i.Op, x.pos(i.Pos()))
	return nil
}

func (x *Exec) eqValue(a, b Value) string {
	switch av := a.(type) {
	case Scalar:
		if av.T == "nil" {
			return x.isNil(b)
		}
		if bs, ok := b.(Scalar); ok && bs.T == "nil" {
			return x.isNil(a)
		}
		if isString(av.Typ) {
			return x.strEq(av.T, x.term(b))
		}
		return eq(av.T, x.term(b))
	case Ptr:
		if bs, ok := b.(Scalar); ok && bs.T == "nil" {
			return x.isNil(a)
		}
		bp := x.asPtr(b)
		if len(av.Path) == 0 && len(bp.Path) == 0 {
			return eq(av.Base, bp.Base)
		}
		// two interior pointers are equal exactly if they descend the same way into the same object
		// (distinct variables have distinct addresses; a pointer into an object never equals the object
		// pointer of another type)
		if len(av.Path) != len(bp.Path) {
			return "false"
		}
		conj := []string{eq(av.Base, bp.Base)}
		for k := range av.Path {
			sa, sb := av.Path[k], bp.Path[k]
			if sa.Field != sb.Field {
				return "false"
			}
			if sa.Field == "" {
				conj = append(conj, eq(sa.Idx, sb.Idx))
			}
		}
		if len(conj) == 1 {
			return conj[0]
		}
		return "(and " + strings.Join(conj, " ") + ")"
	case Iface:
		if bs, ok := b.(Scalar); ok && bs.T == "nil" {
			return x.isNil(a)
		}
		bi := x.asIface(b, av.Typ)
		if bi.Tag == "0" {
			return eq(av.Tag, "0") // comparison with nil: the dynamic type decides
		}
		if av.Tag == "0" {
			return eq(bi.Tag, "0")
		}
		return and(eq(av.Tag, bi.Tag), eq(av.Ref, bi.Ref))
	case SliceV:
		if bs, ok := b.(SliceV); ok && x.pure > 0 && bs.Base != "0" && av.Base != "0" {
			// contract-level equality of two slice values (Go itself only compares a
			// slice with nil): the same window of the same array
			return and(eq(av.Base, bs.Base), eq(av.Off, bs.Off), eq(av.Len, bs.Len), eq(av.Cap, bs.Cap))
		} else if ok && av.Base == "0" {
			return x.isNil(b)
		}
		return x.isNil(a)
	case ArrayV:
		br := b.(ArrayV)
		var cs []string
		for k := range av.Elems {
			cs = append(cs, x.eqValue(av.Elems[k], br.Elems[k]))
		}
		return and(cs...)
	case Record:
		br := b.(Record)
		var cs []string
		for k := range av.Fields {
			cs = append(cs, x.eqValue(av.Fields[k], br.Fields[k]))
		}
		return and(cs...)
	case FuncV:
		if bf, ok := b.(FuncV); ok && bf.Name != "" && av.Name != "" {
			return eq(av.Name, bf.Name)
		}
		return x.isNil(a)
	case GhostArr:
		return eq(av.T, x.term(b))
	}
	x.fail("equality on %T", a)
	return ""
}

func (x *Exec) isNil(v Value) string {
	switch s := v.(type) {
	case Scalar:
		if s.T == "nil" {
			return "true"
		}
		return eq(s.T, "0")
	case Ptr:
		if len(s.Path) > 0 {
			return "false"
		}
		if s.Fresh {
			return "false"
		}
		return eq(s.Base, "0")
	case SliceV:
		return eq(s.Base, "0")
	case Iface:
		return eq(s.Tag, "0")
	case FuncV:
		if s.Fn != nil {
			return "false"
		}
		if s.Name == "" {
			return "true"
		}
		return eq(s.Name, "0")
	case Closure:
		return "false"
	}
	x.fail("nil test on %T", v)
	return ""
}

// strEq compares two strings; literals are expanded to content equality.
func (x *Exec) strEq(a, b string) string {
	if a == b {
		return "true"
	}
	la, aok := x.litOf(a)
	lb, bok := x.litOf(b)
	if aok && bok {
		if la == lb {
			return "true"
		}
		return "false"
	}
	if bok {
		a, b, la, aok = b, a, lb, true
	}
	if aok && len(la) <= 64 {
		cs := []string{eq("(slen "+b+")", bvLit(uint64(len(la)), 64))}
		for i := 0; i < len(la); i++ {
			cs = append(cs, eq("(select (sarr "+b+") "+bvLit(uint64(i), 64)+")", bvLit(uint64(la[i]), 8)))
		}
		return and(cs...)
	}
	return x.P.strEqTerm(a, b)
}

func (p *Prog) strEqTerm(a, b string) string {
	// extensional string equality: same length and same bytes below it
	return fmt.Sprintf("(streq %s %s)", a, b)
}

func (x *Exec) litOf(name string) (string, bool) {
	for s, n := range x.strLits {
		if n == name {
			return s, true
		}
	}
	return "", false
}

func (x *Exec) binop(fr *Frame, st *State, op token.Token, a, b Value, t types.Type, pos token.Pos) Value {
	boolT := types.Typ[types.Bool]
	switch op {
	case token.EQL:
		return Scalar{T: x.eqValue(a, b), Typ: boolT}
	case token.NEQ:
		return Scalar{T: not(x.eqValue(a, b)), Typ: boolT}
	}
	if isBool(t) {
		at, bt := x.term(a), x.term(b)
		switch op {
		case token.LAND, token.AND:
			return Scalar{T: and(at, bt), Typ: boolT}
		case token.LOR, token.OR:
			return Scalar{T: or(at, bt), Typ: boolT}
		}
		x.fail("bool op %s", op)
	}
	if isString(t) {
		at, bt := x.term(a), x.term(b)
		switch op {
		case token.ADD:
			r := x.em.freshConst("strcat", "Str")
			x.em.assume(fmt.Sprintf("(= (slen %s) (bvadd (slen %s) (slen %s)))", r, at, bt))
			return Scalar{T: r, Typ: t}
		}
		x.fail("string op %s unsupported", op)
	}
	if isFloat(t) {
		return Scalar{T: x.em.freshConst("float", "Real"), Typ: t}
	}
	w, signed, ok := bvWidth(t)
	if !ok {
		x.fail("binop %s on %s", op, typeKey(t))
	}
	at, bt := x.term(a), x.term(b)
	sel := func(u, s string) string {
		if signed {
			return s
		}
		return u
	}
	mk := func(f string) Value { return Scalar{T: "(" + f + " " + at + " " + bt + ")", Typ: t} }
	cmp := func(f string) Value { return Scalar{T: "(" + f + " " + at + " " + bt + ")", Typ: boolT} }
	switch op {
	case token.ADD:
		return mk("bvadd")
	case token.SUB:
		return mk("bvsub")
	case token.MUL:
		return mk("bvmul")
	case token.QUO:
		x.safety(fr, st, "div0", "quo", not(eq(bt, bvLit(0, w))), pos)
		return mk(sel("bvudiv", "bvsdiv"))
	case token.REM:
		x.safety(fr, st, "div0", "rem", not(eq(bt, bvLit(0, w))), pos)
		return mk(sel("bvurem", "bvsrem"))
	case token.AND:
		return mk("bvand")
	case token.OR:
		return mk("bvor")
	case token.XOR:
		return mk("bvxor")
	case token.AND_NOT:
		return Scalar{T: "(bvand " + at + " (bvnot " + bt + "))", Typ: t}
	case token.SHL, token.SHR:
		// shift count has its own type; Go: count >= width gives 0 (or sign fill)
		bs := b.(Scalar)
		cw, csigned, _ := bvWidth(bs.Typ)
		cnt := bt
		if csigned {
			x.safety(fr, st, "shift", "negative", "(bvsge "+bt+" "+bvLit(0, cw)+")", pos)
		}
		if cw > w {
			cnt = fmt.Sprintf("(ite (bvuge %s %s) %s ((_ extract %d 0) %s))", bt, bvLit(uint64(w), cw), bvLit(uint64(w), w), w-1, bt)
		} else if cw < w {
			cnt = fmt.Sprintf("((_ zero_extend %d) %s)", w-cw, bt)
		}
		f := "bvshl"
		if op == token.SHR {
			f = sel("bvlshr", "bvashr")
		}
		return Scalar{T: "(" + f + " " + at + " " + cnt + ")", Typ: t}
	case token.LSS:
		return cmp(sel("bvult", "bvslt"))
	case token.LEQ:
		return cmp(sel("bvule", "bvsle"))
	case token.GTR:
		return cmp(sel("bvugt", "bvsgt"))
	case token.GEQ:
		return cmp(sel("bvuge", "bvsge"))
	}
	x.fail("unsupported binary %s", op)
	return nil
}

func (x *Exec) retype(v Value, t types.Type) Value {
	switch s := v.(type) {
	case Scalar:
		s.Typ = t
		return s
	case Record:
		s.Typ = t
		return s
	case SliceV:
		if sl, ok := t.Underlying().(*types.Slice); ok {
			s.Elem = sl.Elem()
		}
		return s
	case Ptr:
		if len(s.Path) == 0 {
			if pt, ok := t.Underlying().(*types.Pointer); ok {
				s.Root = pt.Elem()
			}
		}
		return s
	}
	return v
}

func (x *Exec) convert(fr *Frame, st *State, v Value, from, to types.Type) Value {
	fw, fsigned, fok := bvWidth(from)
	tw, _, tok := bvWidth(to)
	if fok && tok {
		s := x.term(v)
		switch {
		case fw == tw:
			return Scalar{T: s, Typ: to}
		case fw > tw:
			return Scalar{T: fmt.Sprintf("((_ extract %d 0) %s)", tw-1, s), Typ: to}
		case fsigned:
			return Scalar{T: fmt.Sprintf("((_ sign_extend %d) %s)", tw-fw, s), Typ: to}
		default:
			return Scalar{T: fmt.Sprintf("((_ zero_extend %d) %s)", tw-fw, s), Typ: to}
		}
	}
	if isString(to) {
		if sl, ok := from.Underlying().(*types.Slice); ok {
			if w, _, ok := bvWidth(sl.Elem()); ok && w == 8 {
				return x.bytesToString(st, x.asSlice(v, sl.Elem()), to)
			}
		}
		if isString(from) {
			return x.retype(v, to)
		}
	}
	if sl, ok := to.Underlying().(*types.Slice); ok && isString(from) {
		if w, _, ok := bvWidth(sl.Elem()); ok && w == 8 {
			return x.stringToBytes(st, x.term(v), sl.Elem())
		}
	}
	if isFloat(to) || isFloat(from) {
		if tok {
			return Scalar{T: x.em.freshConst("f2i", sortOf(to)), Typ: to}
		}
		return Scalar{T: x.em.freshConst("float", "Real"), Typ: to}
	}
	if _, ok := to.Underlying().(*types.Pointer); ok {
		return x.retype(v, to)
	}
	if types.Identical(from.Underlying(), to.Underlying()) {
		return x.retype(v, to)
	}
	x.fail("unsupported conversion %s -> %s", typeKey(from), typeKey(to))
	return nil
}

func (x *Exec) bytesToString(st *State, s SliceV, to types.Type) Value {
	r := x.em.freshConst("str", "Str")
	x.em.assume(eq("(slen "+r+")", s.Len))
	s = x.regionOf(s)
	l := x.leaf(s.key(), 1, "(_ BitVec 8)")
	arr := "(select " + x.heapGet(st, l) + " " + s.eb() + ")"
	if s.Off == bvLit(0, 64) {
		x.em.assume(eq("(sarr "+r+")", arr))
	} else {
		q := x.em.fresh("i")
		x.em.assume(fmt.Sprintf("(forall ((%s (_ BitVec 64))) (! (=> (bvult %s %s) (= (select (sarr %s) %s) (select %s (at %s %s)))) :pattern ((select (sarr %s) %s))))",
			q, q, s.Len, r, q, arr, s.Off, q, r, q))
	}
	return Scalar{T: r, Typ: to}
}

func (x *Exec) stringToBytes(st *State, s string, elem types.Type) Value {
	r := x.newRef(st)
	l := x.leaf("[]uint8", 1, "(_ BitVec 8)")
	cur := x.heapGet(st, l)
	st.Heap["[]uint8"] = x.em.define("H.bytes", l.ArraySort(), "(store "+cur+" "+r+" (sarr "+s+"))")
	saved := x.storeNew
	x.storeNew = true
	x.recordWrite("[]uint8", r, false)
	x.storeNew = saved
	n := x.em.define("slen", "(_ BitVec 64)", "(slen "+s+")")
	x.em.assume("(bvule " + n + " " + maxCap + ")")
	return SliceV{Base: r, Off: bvLit(0, 64), Len: n, Cap: n, Elem: elem, New: true}
}

func (x *Exec) typeAssert(fr *Frame, st *State, i *ssa.TypeAssert) Value {
	ifc := x.asIface(x.value(fr, i.X), i.X.Type())
	if _, isIface := i.AssertedType.Underlying().(*types.Interface); isIface {
		if i.CommaOk {
			return Tuple{Vals: []Value{ifc, Scalar{T: not(eq(ifc.Tag, "0")), Typ: types.Typ[types.Bool]}}}
		}
		x.safety(fr, st, "typeassert", "iface", not(eq(ifc.Tag, "0")), i.Pos())
		return ifc
	}
	ok := eq(ifc.Tag, x.typeTag(i.AssertedType))
	var val Value
	if ifc.Dyn != nil {
		val = ifc.Dyn
	} else if pt, isPtr := i.AssertedType.Underlying().(*types.Pointer); isPtr {
		val = Ptr{Base: ifc.Ref, Root: pt.Elem()}
	} else {
		val = x.freshValue(i.AssertedType, "asserted", st)
	}
	if i.CommaOk {
		return Tuple{Vals: []Value{val, Scalar{T: ok, Typ: types.Typ[types.Bool]}}}
	}
	x.safety(fr, st, "typeassert", typeKey(i.AssertedType), ok, i.Pos())
	return val
}

// ---------- maps ----------

func (x *Exec) mapKeySort(mt *types.Map) string { return sortOf(mt.Key()) }

func mapKey(mt *types.Map) string { return "map[" + typeKey(mt.Key()) + "]" + elemKey(mt.Elem()) }

func (x *Exec) mapDomLeaf(mt *types.Map) *LeafInfo {
	key := mapKey(mt) + "#dom"
	if l, ok := x.leaves[key]; ok {
		return l
	}
	l := &LeafInfo{Key: key, NIdx: 0, Sort: "(Array " + x.mapKeySort(mt) + " Bool)"}
	x.leaves[key] = l
	return l
}

func (x *Exec) mapInit(st *State, mt *types.Map, r string) {
	l := x.mapDomLeaf(mt)
	cur := x.heapGet(st, l)
	st.Heap[l.Key] = x.em.define("H.dom", l.ArraySort(), fmt.Sprintf("(store %s %s ((as const (Array %s Bool)) false))", cur, r, x.mapKeySort(mt)))
	x.recordWrite(l.Key, r, false)
}

// mapValLeaves enumerates the scalar leaves of a map's value type.
func (x *Exec) mapValWalk(t types.Type, key string, f func(key, sort string, get func(Value) string, set func(term string))) {
}

func (x *Exec) mapValLeaf(mt *types.Map, sub, sort string) *LeafInfo {
	key := mapKey(mt) + "#val" + sub
	if l, ok := x.leaves[key]; ok {
		return l
	}
	l := &LeafInfo{Key: key, NIdx: 0, Sort: "(Array " + x.mapKeySort(mt) + " " + sort + ")"}
	x.leaves[key] = l
	return l
}

// mapValWf: pointer-valued maps hold nil or allocated objects.
func (x *Exec) mapValWf(mt *types.Map, l *LeafInfo, name string, st *State) {
	if x.wfDone[name] || st.Epoch < 0 {
		return
	}
	if !(strings.HasPrefix(name, "L.") || strings.HasPrefix(name, "Hc.") || strings.HasPrefix(name, "Ha.") || strings.HasPrefix(name, "Hh.") || strings.HasPrefix(name, "Hn.")) {
		return
	}
	x.wfDone[name] = true
	m, k := x.em.fresh("wfm"), x.em.fresh("wfk")
	x.em.items = append(x.em.items, item{glob: true, line: fmt.Sprintf("(assert (forall ((%s Int) (%s %s)) (! (and (<= 0 (select (select %s %s) %s)) (<= (select (select %s %s) %s) %s)) :pattern ((select (select %s %s) %s)))))",
		m, k, x.mapKeySort(mt), name, m, k, name, m, k, st.Frontier, name, m, k)})
}

func (x *Exec) mapLoadVal(st *State, mt *types.Map, m, k string, t types.Type, sub string) Value {
	t = types.Unalias(t)
	switch u := t.Underlying().(type) {
	case *types.Struct:
		r := Record{Typ: t}
		for i := 0; i < u.NumFields(); i++ {
			r.Fields = append(r.Fields, x.mapLoadVal(st, mt, m, k, u.Field(i).Type(), sub+"."+u.Field(i).Name()))
		}
		return r
	case *types.Pointer:
		l := x.mapValLeaf(mt, sub, "Int")
		x.mapValWf(mt, l, x.heapGet(st, l), st)
		term := x.em.define("mv", "Int", "(select (select "+x.heapGet(st, l)+" "+m+") "+k+")")
		x.em.assume(fmt.Sprintf("(and (<= 0 %s) (<= %s %s))", term, term, st.Frontier))
		return Ptr{Base: term, Root: u.Elem()}
	case *types.Slice, *types.Interface, *types.Array:
		x.fail("map value type %s unsupported", typeKey(t))
	}
	l := x.mapValLeaf(mt, sub, sortOf(t))
	return Scalar{T: "(select (select " + x.heapGet(st, l) + " " + m + ") " + k + ")", Typ: t}
}

func (x *Exec) mapStoreVal(st *State, mt *types.Map, m, k string, t types.Type, sub string, v Value) {
	t = types.Unalias(t)
	if u, ok := t.Underlying().(*types.Struct); ok {
		r := v.(Record)
		for i := 0; i < u.NumFields(); i++ {
			x.mapStoreVal(st, mt, m, k, u.Field(i).Type(), sub+"."+u.Field(i).Name(), r.Fields[i])
		}
		return
	}
	srt := sortOf(t)
	l := x.mapValLeaf(mt, sub, srt)
	cur := x.heapGet(st, l)
	st.Heap[l.Key] = x.em.define("H.mval", l.ArraySort(), fmt.Sprintf("(store %s %s (store (select %s %s) %s %s))", cur, m, cur, m, k, x.term(v)))
	x.recordWrite(l.Key, m, false)
}

func (x *Exec) lookup(fr *Frame, st *State, i *ssa.Lookup) Value {
	if isString(i.X.Type()) {
		s := x.term(x.value(fr, i.X))
		idx := x.toU64(x.value(fr, i.Index), i.Index.Type())
		x.safety(fr, st, "bounds", "strindex", "(bvult "+idx+" (slen "+s+"))", i.Pos())
		return Scalar{T: "(select (sarr " + s + ") " + idx + ")", Typ: i.Type()}
	}
	mt := i.X.Type().Underlying().(*types.Map)
	m := x.term(x.value(fr, i.X))
	k := x.term(x.value(fr, i.Index))
	dom := "(select (select " + x.heapGet(st, x.mapDomLeaf(mt)) + " " + m + ") " + k + ")"
	dom = x.em.define("indom", "Bool", and(not(eq(m, "0")), dom))
	val := x.mapLoadVal(st, mt, m, k, mt.Elem(), "")
	val = x.iteValue(dom, val, x.zeroValue(mt.Elem()))
	if i.CommaOk {
		return Tuple{Vals: []Value{val, Scalar{T: dom, Typ: types.Typ[types.Bool]}}}
	}
	return val
}

func (x *Exec) mapUpdate(fr *Frame, st *State, mv, kv, vv Value, mtype types.Type) {
	mt := mtype.Underlying().(*types.Map)
	m := x.term(mv)
	k := x.term(kv)
	x.safety(fr, st, "nil", "mapassign", not(eq(m, "0")), token.NoPos)
	l := x.mapDomLeaf(mt)
	cur := x.heapGet(st, l)
	st.Heap[l.Key] = x.em.define("H.dom", l.ArraySort(), fmt.Sprintf("(store %s %s (store (select %s %s) %s true))", cur, m, cur, m, k))
	x.recordWrite(l.Key, m, false)
	x.mapStoreVal(st, mt, m, k, mt.Elem(), "", x.coerce(vv, mt.Elem()))
}

func (x *Exec) mapDelete(st *State, mv, kv Value, mtype types.Type) {
	mt := mtype.Underlying().(*types.Map)
	m := x.term(mv)
	k := x.term(kv)
	l := x.mapDomLeaf(mt)
	cur := x.heapGet(st, l)
	st.Heap[l.Key] = x.em.define("H.dom", l.ArraySort(), fmt.Sprintf("(store %s %s (store (select %s %s) %s false))", cur, m, cur, m, k))
	x.recordWrite(l.Key, m, false)
}

// next models one step of a map range: an arbitrary key of the domain.
func (x *Exec) next(fr *Frame, st *State, i *ssa.Next) Value {
	rng := i.Iter.(*ssa.Range)
	if i.IsString {
		x.fail("range over string unsupported")
	}
	mt := rng.X.Type().Underlying().(*types.Map)
	m := x.term(x.value(fr, rng.X))
	ok := x.em.freshConst("rangeok", "Bool")
	k := x.freshValue(mt.Key(), "rangekey", st)
	domArr := "(select " + x.heapGet(st, x.mapDomLeaf(mt)) + " " + m + ")"
	dom := "(select " + domArr + " " + x.term(k) + ")"
	x.em.assume(implies(ok, dom))
	if x.mapKeySort(mt) == "(_ BitVec 64)" && x.P.specs.Ghosts["rangevisited"] != nil {
		// Go's map iteration: every key present since the start and not deleted
		// meanwhile is produced exactly once; keys added meanwhile may be skipped
		gt := x.P.ghostType(x.P.specs.Ghosts["rangevisited"].Type)
		vis := "(select " + x.heapGet(st, x.ghostLeaf("rangevisited")) + " 1)"
		start := "(select " + x.heapGet(st, x.ghostLeaf("rangestart")) + " 1)"
		x.em.assume(implies(ok, not("(select "+vis+" "+x.term(k)+")")))
		q := x.em.fresh("rk")
		x.em.assume(implies(not(ok), fmt.Sprintf("(forall ((%s (_ BitVec 64))) (! (=> (and (select %s %s) (select %s %s)) (select %s %s)) :pattern ((select %s %s))))", q, domArr, q, start, q, vis, q, domArr, q)))
		nv := x.em.define("rangevis", gt.Sort(), ite(ok, "(store "+vis+" "+x.term(k)+" true)", vis))
		x.setGhost(st, "rangevisited", GhostArr{T: nv, Sort: gt.Sort(), Typ: gt})
	}
	v := x.mapLoadVal(st, mt, m, x.term(k), mt.Elem(), "")
	return Tuple{Vals: []Value{Scalar{T: ok, Typ: types.Typ[types.Bool]}, k, v}}
}

// ---------- slices ----------

func (x *Exec) makeSlice(fr *Frame, st *State, i *ssa.MakeSlice) Value {
	n := x.toU64(x.value(fr, i.Len), i.Len.Type())
	c := x.toU64(x.value(fr, i.Cap), i.Cap.Type())
	el := i.Type().Underlying().(*types.Slice).Elem()
	x.safety(fr, st, "alloc-bound", "makeslice", "(and (bvule "+n+" "+c+") (bvule "+c+" #x0000000080000000))", i.Pos())
	r := x.newRef(st)
	x.fillArray(st, el, rootKey(sliceRoot(el, "")), r, nil)
	return SliceV{Base: r, Off: bvLit(0, 64), Len: n, Cap: c, Elem: el, New: true}
}

func (x *Exec) sliceOp(fr *Frame, st *State, i *ssa.Slice) Value {
	z := bvLit(0, 64)
	lo := z
	if i.Low != nil {
		lo = x.toU64(x.value(fr, i.Low), i.Low.Type())
	}
	switch v := x.value(fr, i.X).(type) {
	case SliceV:
		hi := v.Len
		if i.High != nil {
			hi = x.toU64(x.value(fr, i.High), i.High.Type())
		}
		mx := v.Cap
		if i.Max != nil {
			mx = x.toU64(x.value(fr, i.Max), i.Max.Type())
			x.safety(fr, st, "bounds", "slice3", "(bvule "+mx+" "+v.Cap+")", i.Pos())
		}
		x.safety(fr, st, "bounds", "slice", and("(bvule "+lo+" "+hi+")", "(bvule "+hi+" "+mx+")"), i.Pos())
		off := v.Off
		if lo != z {
			off = "(bvadd " + v.Off + " " + lo + ")"
		}
		r := SliceV{Base: v.Base, Off: off, Len: bvsub(hi, lo), Cap: bvsub(mx, lo), Elem: v.Elem, Own: v.Own, New: v.New, Region: v.Region, Owner: v.Owner}
		return x.nameValue(r, i.Name())
	case Ptr: // pointer to array
		at, ok := v.elemType(x).Underlying().(*types.Array)
		if !ok || len(v.Path) != 0 {
			x.fail("slice of %s unsupported", typeKey(v.elemType(x)))
		}
		n := bvLit(uint64(at.Len()), 64)
		hi := n
		if i.High != nil {
			hi = x.toU64(x.value(fr, i.High), i.High.Type())
		}
		x.safety(fr, st, "bounds", "slice", and("(bvule "+lo+" "+hi+")", "(bvule "+hi+" "+n+")"), i.Pos())
		return x.nameValue(SliceV{Base: v.Base, Off: lo, Len: bvsub(hi, lo), Cap: bvsub(n, lo), Elem: at.Elem(), New: v.New}, i.Name())
	case Scalar:
		if isString(v.Typ) {
			n := "(slen " + v.T + ")"
			hi := n
			if i.High != nil {
				hi = x.toU64(x.value(fr, i.High), i.High.Type())
			}
			x.safety(fr, st, "bounds", "strslice", and("(bvule "+lo+" "+hi+")", "(bvule "+hi+" "+n+")"), i.Pos())
			r := x.em.freshConst("substr", "Str")
			x.em.assume(eq("(slen "+r+")", bvsub(hi, lo)))
			q := x.em.fresh("i")
			x.em.assume(fmt.Sprintf("(forall ((%s (_ BitVec 64))) (! (=> (bvult %s (slen %s)) (= (select (sarr %s) %s) (select (sarr %s) (bvadd %s %s)))) :pattern ((select (sarr %s) %s))))",
				q, q, r, r, q, v.T, lo, q, r, q))
			return Scalar{T: r, Typ: v.Typ}
		}
	}
	x.fail("Slice on %T", x.value(fr, i.X))
	return nil
}

func bvsub(a, b string) string {
	if b == bvLit(0, 64) {
		return a
	}
	return "(bvsub " + a + " " + b + ")"
}

// elemAt is the index of element i of a slice with offset off inside its
// backing array. It is an uninterpreted function with the defining axiom
// (at o i) = o + i, so that quantifier patterns over slice elements do not
// contain interpreted arithmetic (E-matching on bvadd is unreliable).
func elemAt(off, i string) string {
	return "(at " + off + " " + i + ")"
}

func bvadd(a, b string) string {
	if b == bvLit(0, 64) {
		return a
	}
	if a == bvLit(0, 64) {
		return b
	}
	return "(bvadd " + a + " " + b + ")"
}

// elemLeaves lists the scalar leaves (key suffix, sort) of a slice element type.
func (x *Exec) elemLeaves(el types.Type, key string, out *[][2]string) {
	el = types.Unalias(el)
	switch u := el.Underlying().(type) {
	case *types.Struct:
		for i := 0; i < u.NumFields(); i++ {
			x.elemLeaves(u.Field(i).Type(), key+"."+u.Field(i).Name(), out)
		}
		return
	case *types.Slice:
		*out = append(*out, [2]string{key + "#base", "Int"}, [2]string{key + "#off", "(_ BitVec 64)"}, [2]string{key + "#len", "(_ BitVec 64)"}, [2]string{key + "#cap", "(_ BitVec 64)"})
		return
	case *types.Interface:
		*out = append(*out, [2]string{key + "#tag", "Int"}, [2]string{key + "#ref", "Int"})
		return
	case *types.Array:
		x.elemLeaves(u.Elem(), arrayElemKey(key), out)
		return
	}
	*out = append(*out, [2]string{key, sortOf(el)})
}

// appendOp models append(s, e...): in place when it fits, a fresh array
// otherwise. A fresh backing array is modelled as a copy of the old one with
// the same offset (the shift is unobservable through slices), so the new
// contents are "old contents with the appended window overwritten" in both
// cases; only the base differs.
func (x *Exec) appendOp(fr *Frame, st *State, s, e SliceV, pos token.Pos) Value {
	newLen := x.em.define("applen", "(_ BitVec 64)", bvadd(s.Len, e.Len))
	fits := x.em.define("appfits", "Bool", "(bvule "+newLen+" "+s.Cap+")")
	fresh := x.newRef(st)
	rb := x.em.define("appbase", "Int", ite(fits, s.Base, fresh))
	ncap := x.em.freshConst("appcap", "(_ BitVec 64)")
	x.em.assume(fmt.Sprintf("(and (bvule %s %s) (bvule %s %s))", newLen, ncap, ncap, maxCap))
	rcap := x.em.define("appcap", "(_ BitVec 64)", ite(fits, s.Cap, ncap))
	s = x.regionOf(s)
	e = x.regionOf(e)
	var leaves, eleaves [][2]string
	x.elemLeaves(s.Elem, s.key(), &leaves)
	x.elemLeaves(e.Elem, e.key(), &eleaves)
	for li, lf := range leaves {
		l := x.leaf(lf[0], 1, lf[1])
		cur := x.heapGet(st, l)
		olds := "(select " + cur + " " + s.eb() + ")"
		olde := "(select " + x.heapGet(st, x.leaf(eleaves[li][0], 1, eleaves[li][1])) + " " + e.eb() + ")"
		var inner string
		if e.Len == bvLit(1, 64) {
			inner = "(store " + olds + " " + elemAt(s.Off, s.Len) + " (select " + olde + " " + elemAt(e.Off, bvLit(0, 64)) + "))"
		} else {
			inner = x.em.freshConst("appdata", l.InnerSort(0))
			q := x.em.fresh("i")
			x.em.assume(fmt.Sprintf("(forall ((%s (_ BitVec 64))) (! (=> (bvult %s %s) (= (select %s (at %s (bvadd %s %s))) (select %s (at %s %s)))) :pattern ((select %s (at %s (bvadd %s %s)))) :pattern ((select %s (at %s %s)))))",
				q, q, e.Len, inner, s.Off, s.Len, q, olde, e.Off, q, inner, s.Off, s.Len, q, olde, e.Off, q))
			x.em.assume(fmt.Sprintf("(forall ((%s (_ BitVec 64))) (! (=> (not (and (bvule (bvadd %s %s) %s) (bvult %s (bvadd %s %s)))) (= (select %s %s) (select %s %s))) :pattern ((select %s %s))))",
				q, s.Off, s.Len, q, q, s.Off, newLen, inner, q, olds, q, inner, q))
		}
		wb := rb
		if s.Region != "" && s.Owner != "" {
			wb = s.Owner // owned arrays are addressed by their owner
		}
		st.Heap[lf[0]] = x.em.define("H.app", l.ArraySort(), "(store "+cur+" "+wb+" "+inner+")")
		saved := x.storeNew
		x.storeNew = s.New
		x.recordWrite(lf[0], wb, false)
		x.storeNew = saved
	}
	_ = pos
	return SliceV{Base: rb, Off: s.Off, Len: newLen, Cap: rcap, Elem: s.Elem, Own: nil, New: s.New, Region: s.Region, Owner: s.Owner}
}

func (x *Exec) copyOp(fr *Frame, st *State, d, s SliceV) Value {
	n := x.em.define("copyn", "(_ BitVec 64)", ite("(bvult "+d.Len+" "+s.Len+")", d.Len, s.Len))
	d = x.regionOf(d)
	s = x.regionOf(s)
	var leaves, sleaves [][2]string
	x.elemLeaves(d.Elem, d.key(), &leaves)
	x.elemLeaves(s.Elem, s.key(), &sleaves)
	for li, lf := range leaves {
		l := x.leaf(lf[0], 1, lf[1])
		cur := x.heapGet(st, l)
		inner := x.em.freshConst("copydata", l.InnerSort(0))
		q := x.em.fresh("i")
		oldd := "(select " + cur + " " + d.eb() + ")"
		olds := "(select " + x.heapGet(st, x.leaf(sleaves[li][0], 1, sleaves[li][1])) + " " + s.eb() + ")"
		x.em.assume(fmt.Sprintf("(forall ((%s (_ BitVec 64))) (! (=> (bvult %s %s) (= (select %s (at %s %s)) (select %s (at %s %s)))) :pattern ((select %s (at %s %s))) :pattern ((select %s (at %s %s)))))",
			q, q, n, inner, d.Off, q, olds, s.Off, q, inner, d.Off, q, olds, s.Off, q))
		x.em.assume(fmt.Sprintf("(forall ((%s (_ BitVec 64))) (! (=> (not (and (bvule %s %s) (bvult %s (bvadd %s %s)))) (= (select %s %s) (select %s %s))) :pattern ((select %s %s))))",
			q, d.Off, q, q, d.Off, n, inner, q, oldd, q, inner, q))
		st.Heap[lf[0]] = x.em.define("H.copy", l.ArraySort(), "(store "+cur+" "+d.eb()+" "+inner+")")
		x.recordWrite(lf[0], d.eb(), false)
	}
	return Scalar{T: n, Typ: types.Typ[types.Int]}
}

func (x *Exec) panicInstr(fr *Frame, st *State, i *ssa.Panic) {
	msg := "panic"
	if mi, ok := i.X.(*ssa.MakeInterface); ok {
		if c, ok := mi.X.(*ssa.Const); ok && c.Value != nil {
			msg = c.Value.ExactString()
		}
	}
	x.doPanic(fr, st, msg, i.Pos())
}

func (x *Exec) doPanic(fr *Frame, st *State, msg string, pos token.Pos) {
	spec := fr.spec
	if spec != nil {
		for _, m := range spec.PanicAssumed {
			if "\""+m+"\"" == msg || m == msg || m == "*" {
				x.assumedPanics[x.P.funcKey(fr.fn)+": "+msg] = true
				x.em.assume(not(st.Reach))
				return
			}
		}
	}
	// specified panic (top-level function only): allowed exactly under panics_if
	if fr.isTop && x.topSpec != nil && len(x.topSpec.PanicsIf) > 0 {
		env := x.newEnv(fr, x.entry, fr.fn.Blocks[0])
		var cs []string
		for _, c := range x.topSpec.PanicsIf {
			cs = append(cs, x.evalBool(env, c.Expr))
		}
		x.safety(fr, st, "nopanic", "unspecified:"+msg, or(cs...), pos)
		x.em.assume(not(st.Reach))
		return
	}
	x.safety(fr, st, "nopanic", msg, "false", pos)
}

// codeAccess applies the protected / onwrite hooks to a heap access made by code.
func (x *Exec) codeAccess(fr *Frame, st *State, p Ptr, write bool, pos token.Pos) {
	if x.pure > 0 || len(x.P.specs.Hooks) == 0 {
		return
	}
	pp := p
	x.hookPtr = &pp
	defer func() { x.hookPtr = nil }()
	if p.Own != nil {
		for _, h := range x.P.specs.Hooks {
			if h.Elems && h.Key == p.Own.Key {
				x.applyHook(fr, st, h, Ptr{Base: p.Own.Base, Root: p.Own.Root}, write, pos)
			}
		}
		return
	}
	if p.Root == nil {
		return
	}
	_, key, _, err := typeAtPath(p.Root, p.Path)
	if err != nil {
		return
	}
	rk := rootKey(p.Root)
	if el, isArr := isArrayRoot(p.Root); isArr && len(p.Path) >= 1 && p.Path[0].Field == "" {
		// an element of a slice or array of structs: the hooks declared for the
		// struct type apply to the element's fields
		if _, ok := structOf(el); ok {
			if _, k2, _, err2 := typeAtPath(el, p.Path[1:]); err2 == nil {
				rk2 := rootKey(el)
				for _, h := range x.P.specs.Hooks {
					if h.Elems || h.rootKey != rk2 || h.Kind != "protected" || (p.Fresh && p.New) {
						continue
					}
					if k2 == h.Key || strings.HasPrefix(k2, h.Key+".") || strings.HasPrefix(h.Key, k2+".") || len(p.Path) == 1 {
						x.applyHook(fr, st, h, Ptr{Base: p.Base, Root: p.Root, Path: p.Path[:1]}, write, pos)
					}
				}
			}
		}
	}
	for _, h := range x.P.specs.Hooks {
		if h.Elems || h.rootKey != rk {
			continue
		}
		// stores into an object nobody else can see yet: only hooks that record
		// the written value (no `this`) apply
		if p.Fresh && !(h.Kind == "onwrite" && !strings.Contains(h.Src, "this")) {
			continue
		}
		if h.Kind == "writeguard" && key != h.Key {
			continue // guards apply to stores of exactly this field
		}
		if key == h.Key || strings.HasPrefix(key, h.Key+".") || strings.HasPrefix(h.Key, key+".") || len(p.Path) == 0 {
			x.applyHook(fr, st, h, Ptr{Base: p.Base, Root: p.Root}, write, pos)
		}
	}
}

func (x *Exec) applyHook(fr *Frame, st *State, h *Hook, this Ptr, write bool, pos token.Pos) {
	env := x.newEnv(fr, st, nil)
	env.noLocals = true
	env.vars["this"] = this
	env.vars["changed"] = Scalar{T: "true", Typ: boolT}
	if write && x.hookNew != nil {
		env.vars["value"] = x.hookNew
	}
	if write && x.hookNew != nil && x.hookPtr != nil {
		// changed: does the store alter the stored value?
		func() {
			defer func() { recover() }()
			x.pure++
			old := x.load(st, *x.hookPtr)
			x.pure--
			env.vars["changed"] = Scalar{T: not(x.eqValue(old, x.hookNew)), Typ: boolT}
			env.vars["oldvalue"] = old
		}()
	}
	if n, ok := this.Root.(*types.Named); ok && n.Obj().Pkg() != nil {
		env.pkg = n.Obj().Pkg()
	}
	switch h.Kind {
	case "protected":
		if x.em.discard {
			return
		}
		prop := x.evalBool(env, h.By)
		k := "protected:" + h.Key
		fr.occ[k]++
		o := &Obligation{Name: fmt.Sprintf("%s/%s%s@%d", x.topKey, fr.prefix, k, fr.occ[k]), Kind: "protected", Guard: st.Reach, Prop: prop,
			Pos: x.pos(pos), Src: h.Src, FnName: x.topKey, Inputs: x.inputs}
		o.Props = append(o.Props, h.Props...)
		x.em.oblige(o)
	case "writeguard":
		if !write || x.em.discard {
			return
		}
		if _, ok := env.vars["oldvalue"]; !ok {
			return
		}
		prop := x.evalBool(env, h.By)
		k := "writeguard:" + h.Key
		fr.occ[k]++
		o := &Obligation{Name: fmt.Sprintf("%s/%s%s@%d", x.topKey, fr.prefix, k, fr.occ[k]), Kind: "writeguard", Guard: st.Reach, Prop: prop,
			Pos: x.pos(pos), Src: h.Src, FnName: x.topKey, Inputs: x.inputs}
		o.Props = append(o.Props, h.Props...)
		x.em.oblige(o)
	case "onwrite":
		if !write {
			return
		}
		x.setGhost(st, h.Ghost, x.evalExpr(env, h.Value))
	}
}

func (x *Exec) setGhost(st *State, name string, v Value) {
	l := x.ghostLeaf(name)
	cur := x.heapGet(st, l)
	g := x.P.specs.Ghosts[name]
	gt := x.P.ghostType(g.Type)
	if s, ok := v.(Scalar); ok && s.T == "$empty" {
		// the everywhere-false / everywhere-zero map
		if gt.Key == nil || gt.Val.Key != nil {
			x.fail("empty is only defined for one-level ghost maps")
		}
		zero := "false"
		if !isBool(gt.Val.Base) {
			zero = x.term(x.zeroValue(gt.Val.Base))
		}
		v = GhostArr{T: "((as const " + gt.Sort() + ") " + zero + ")", Sort: gt.Sort(), Typ: gt}
	}
	if gt.Key == nil {
		v = x.typed(v, gt.Base)
	}
	st.Heap[l.Key] = x.em.define("Hg."+name, l.ArraySort(), "(store "+cur+" 1 "+x.term(v)+")")
	x.recordWrite(l.Key, "1", false)
}
