package main

import (
	"fmt"
	"os"
	"path/filepath"
	"sort"
	"strings"
	"time"
)

func hasProp(o *Obligation, prop string) bool {
	for _, p := range o.Props {
		if p == prop {
			return true
		}
	}
	return false
}

func report(P *Prog, prop, tier string, results []*FuncResult, kf *KnownFile, verbose bool, t0 time.Time) int {
	total, discharged, known, covers := 0, 0, 0, 0
	bySolver := map[string]int{}
	solverS := 0.0
	var samples []interface{}
	var funcs []string
	assumedContracts := map[string]bool{}
	assumedPanics := map[string]bool{}
	notes := map[string]bool{}
	inlined := map[string]bool{}
	assumedClauses := map[string]bool{}
	bounded := []string{}
	type viol struct {
		o   *Obligation
		r   *FuncResult
		msg string
	}
	var viols []viol
	var knownLines []string
	var knownElsewhere []string
	slow := []string{}
	for _, r := range results {
		funcs = append(funcs, r.Key)
		for _, n := range r.Notes {
			notes[r.Key+": "+n] = true
		}
		for _, n := range r.AssumedSpecs {
			assumedContracts[n] = true
		}
		for _, n := range r.AssumedPanics {
			assumedPanics[n] = true
		}
		for _, n := range r.Inlined {
			inlined[n] = true
		}
		for _, n := range r.AssumedClauses {
			assumedClauses[n] = true
		}
		if r.Err != "" {
			viols = append(viols, viol{nil, r, "contract of " + r.Key + " could not be checked: " + r.Err})
			continue
		}
		fnObls := 0
		for _, o := range r.Obls {
			if o.Cover {
				covers++
				if o.Status == "cover-fail" && !anyFailed(r) {
					viols = append(viols, viol{o, r, "vacuity: the assumptions of " + r.Key + " are contradictory (normal exit unreachable)"})
				}
				continue
			}
			if !hasProp(o, prop) {
				continue
			}
			fnObls++
			solverS += o.Secs
			switch o.Status {
			case "discharged":
				total++
				discharged++
				bySolver[o.Solver]++
				if len(samples) < 12 && (o.Kind == "ensures" || o.Kind == "loop-invariant" || len(samples) < 4) {
					samples = append(samples, map[string]interface{}{"obligation": o.Name, "kind": o.Kind, "clause": o.Src, "solver": o.Solver, "status": o.Status})
				}
				if o.Secs > float64(1) && !strings.Contains(o.Solver, "incremental") {
					slow = append(slow, fmt.Sprintf("%s %.1fs", o.Name, o.Secs))
				}
			case "known":
				known++
				f := o.Finding
				if f.Property == prop || f.Property == "" {
					knownLines = append(knownLines, fmt.Sprintf("KNOWN-FINDING: property=%s %s [%s]", prop, f.What, o.Name))
				} else {
					// the finding is listed (and announced) under its own property; here the
					// obligation is only a premise shared with that property's proof
					knownElsewhere = append(knownElsewhere, fmt.Sprintf("%s (listed under %s)", o.Name, f.Property))
				}
			case "failed":
				total++
				viols = append(viols, viol{o, r, "obligation failed"})
			default:
				total++
				viols = append(viols, viol{o, r, "obligation undecided by all solvers (" + o.Status + ")"})
			}
		}
		if verbose {
			printFuncResult(r, false)
		}
		_ = fnObls
	}
	// a property with no obligations at all is a broken check, not a pass
	if total+known == 0 && len(viols) == 0 {
		viols = append(viols, viol{nil, nil, "no obligations generated for " + prop + " (vacuous check)"})
	}
	sort.Strings(knownLines)
	for _, l := range knownLines {
		fmt.Println(l)
	}
	exit := 0
	for _, v := range viols {
		exit = 1
		name := "engine"
		var b strings.Builder
		fmt.Fprintf(&b, "property: %s\nreason: %s\n", prop, v.msg)
		suffix := " no-failing-input-found"
		if v.o != nil {
			name = v.o.Name
			fmt.Fprintf(&b, "obligation: %s\nkind: %s\nsource: %s\nclause: %s\nstatus: %s\nsolver: %s\ndetail: %s\n", v.o.Name, v.o.Kind, v.o.Pos, v.o.Src, v.o.Status, v.o.Solver, v.o.Detail)
			if v.r != nil && strings.HasPrefix(v.r.Key, "nfstypes.") {
				if rp, ok := replayXDR(P, v.r); ok {
					fmt.Fprintf(&b, "\nreplay on the real code:\n%s\n", rp)
					suffix = ""
				} else if rp != "" {
					fmt.Fprintf(&b, "\nreplay on the real code not confirmed:\n%s\n", rp)
				}
			} else if v.o.Model != "" {
				fmt.Fprintf(&b, "counterexample (solver model of the function inputs):\n%s\n", modelSummary(v.o))
				if rp, ok := tryReplay(P, v.r, v.o); ok {
					fmt.Fprintf(&b, "\nreplay on the real code:\n%s\n", rp)
					suffix = ""
				} else if rp != "" {
					fmt.Fprintf(&b, "\nreplay on the real code not confirmed:\n%s\n", rp)
				}
			}
		} else if v.r != nil {
			name = v.r.Key
		}
		path := writeTextReplay(prop, name, b.String())
		fmt.Printf("VIOLATION property=%s replay=%s obligation=%s%s\n", prop, path, name, suffix)
	}
	sort.Strings(funcs)
	ev := evidence{PropertyID: prop, Tier: tier, Seed: seed(), Level: "proof", WallS: time.Since(t0).Seconds(), Violations: len(viols)}
	ev.Coverage = map[string]interface{}{
		"obligations":               total,
		"discharged":                discharged,
		"checker_cmd":               fmt.Sprintf("/verif/bin/govc check --prop %s --tier %s", prop, tier),
		"trusted_base":              trustedBase(),
		"samples":                   samples,
		"functions_under_contract":  funcs,
		"by_solver":                 bySolver,
		"solver_s":                  solverS,
		"vacuity_covers":            covers,
		"known_finding_obligations": known,
		"known_findings":            knownLines,
		"premises_failing_as_known_findings_of_other_properties": knownElsewhere,
		"assumed_contracts":         keysOf(assumedContracts),
		"assumed_unreachable_panics": keysOf(assumedPanics),
		"inlined_callees":           keysOf(inlined),
		"assumed_clauses":           keysOf(assumedClauses),
		"unmodelled":                keysOf(notes),
		"bounded":                   bounded,
		"slow_obligations":          slow,
		"lemmas_assumed":            lemmasFor(P, prop),
		"integer_semantics":         "machine integers as bit-vectors of their Go width; nothing treated as mathematical",
		"contract_files":            relFiles(P),
	}
	ev.Assumptions = append(ev.Assumptions, lemmasFor(P, prop)...)
	for k := range assumedContracts {
		ev.Assumptions = append(ev.Assumptions, "assumed contract (trusted, body not verified): "+k)
	}
	for k := range assumedClauses {
		ev.Assumptions = append(ev.Assumptions, "assumed postcondition (global invariant / dependency fact, not checked against the body): "+k)
	}
	for k := range assumedPanics {
		ev.Assumptions = append(ev.Assumptions, "panic assumed unreachable under the global file-system invariant: "+k)
	}
	for k := range notes {
		ev.Assumptions = append(ev.Assumptions, "unmodelled: "+k)
	}
	ev.Assumptions = append(ev.Assumptions, "util.DPrintf has no observable effect (util.Debug == 0)", "slice capacities are below 2^40", "heap well-formedness: every pointer stored in the heap refers to an allocated object")
	sort.Strings(ev.Assumptions)
	writeEvidence(prop, &ev)
	fmt.Printf("%s: %d obligations, %d discharged, %d known-finding, %d violations, %d functions, %.1fs\n", prop, total, discharged, known, len(viols), len(funcs), time.Since(t0).Seconds())
	return exit
}

func keysOf(m map[string]bool) []string {
	ks := make([]string, 0, len(m))
	for k := range m {
		ks = append(ks, k)
	}
	sort.Strings(ks)
	return ks
}

func trustedBase() []string {
	return []string{
		"golang.org/x/tools v0.29.0 go/ssa construction of /repo (tag verif)",
		"govc encoding of SSA into SMT-LIB (DESIGN.md 2.2)",
		"SMT solvers z3 5.1.0, z3 4.8.12, cvc5 1.0",
		"assumed dependency contracts in /verif/contracts/*.spec",
	}
}

func lemmasFor(P *Prog, prop string) []string {
	var out []string
	for _, l := range P.specs.Lemmas {
		if strings.Contains(l, "@"+prop) || strings.HasPrefix(l, "L-"+prop) {
			out = append(out, "lemma (written, not machine-checked): "+l)
		}
	}
	return out
}

func relFiles(P *Prog) []string {
	var out []string
	for _, f := range P.specs.Files {
		out = append(out, f)
	}
	return out
}

// tryReplay is filled in by replay.go; returns (text, confirmed).
var tryReplay = func(P *Prog, r *FuncResult, o *Obligation) (string, bool) { return "", false }

var _ = os.Getenv
var _ = filepath.Join

func anyFailed(r *FuncResult) bool {
	for _, o := range r.Obls {
		if o.Status == "failed" || o.Status == "undecided" || o.Status == "known" {
			return true
		}
	}
	return false
}
