package main

import (
	"fmt"
	"strings"
)

// Obligation is one proof obligation: under all assumptions emitted before
// it, Guard => Prop must be valid.
type Obligation struct {
	Name   string
	Kind   string
	Props  []string
	Guard  string
	Prop   string
	AltProp string // equivalent form with opaque predicates expanded; "" if same
	Pos    string
	Src    string // contract clause text, if any
	Cover  bool   // expectation is "sat" (vacuity / reachability cover)
	Region string // known-finding region term (Bool); "" if none
	Inputs []NamedTerm
	Tag    int // block of the top function the obligation arises in (-1 entry, -2 merged exit)

	// results
	Status  string // discharged | failed | undecided | cover-ok | cover-fail
	Solver  string
	Secs    float64
	Model   string
	Detail  string
	FnName  string
	Finding *KnownFinding
}

type NamedTerm struct{ Name, Term string }

// goal is what has to be proved: the clause with opaque predicates applied,
// or (equivalently, under the intended interpretation) with them expanded.
func (o *Obligation) goal() string {
	if o.AltProp == "" {
		return o.Prop
	}
	return or(o.Prop, o.AltProp)
}

type item struct {
	line string
	obl  *Obligation
	glob bool // a fact emitted once and valid everywhere (axiom instance, literal): never sliced away
}

type Emitter struct {
	names map[string]int
	items   []item
	n       int
	discard bool
	declared map[string]bool
	inQuant  int
	stores   map[string]*storeRec
	defs     map[string]string
	tagAt    []tagMark // items from index idx on were emitted while executing block tag of the top function
	curTag   int
	anc      map[int]map[int]bool // anc[b]: blocks of the top function from which b is reachable (b included)
}

type tagMark struct{ idx, tag int }

// setTag records which block of the function under verification the
// following items belong to (-1: entry facts that every block may use).
func (e *Emitter) setTag(tag int) {
	if tag == e.curTag && len(e.tagAt) > 0 {
		return
	}
	e.curTag = tag
	e.tagAt = append(e.tagAt, tagMark{len(e.items), tag})
}

func (e *Emitter) tagOf(i int) int {
	t := -1
	for _, m := range e.tagAt {
		if m.idx > i {
			break
		}
		t = m.tag
	}
	return t
}

// storeRec remembers that heap version name = store(prev, base, idx.., val),
// which lets loads simplify read-over-write syntactically.
type storeRec struct {
	prev string
	base string
	idx  []string
	val  string
}

func newEmitter() *Emitter {
	return &Emitter{declared: map[string]bool{}, stores: map[string]*storeRec{}, defs: map[string]string{}, curTag: -1}
}

func (e *Emitter) fresh(hint string) string {
	e.n++
	return fmt.Sprintf("%s!%d", sanitize(hint), e.n)
}

func (e *Emitter) raw(line string) {
	if e.discard {
		return
	}
	e.items = append(e.items, item{line: line})
}

func (e *Emitter) declare(name, sort string) {
	if e.declared[name] {
		return
	}
	e.declared[name] = true
	// declarations are always kept, even in discard mode, so that terms built
	// during a discovery pass never dangle (they are simply unused).
	e.items = append(e.items, item{line: fmt.Sprintf("(declare-const %s %s)", name, sort)})
}

func (e *Emitter) freshConst(hint, sort string) string {
	n := e.fresh(hint)
	e.declare(n, sort)
	return n
}

// define introduces a named abbreviation for term.
func (e *Emitter) define(hint, sort, term string) string {
	if !strings.ContainsAny(term, " (") || e.inQuant > 0 {
		return term
	}
	n := e.fresh(hint)
	e.declare(n, sort)
	e.items = append(e.items, item{line: fmt.Sprintf("(assert (= %s %s))", n, term), glob: true})
	e.defs[n] = term
	return n
}

func (e *Emitter) assume(t string) {
	if t == "true" || e.discard || e.inQuant > 0 {
		return
	}
	e.items = append(e.items, item{line: "(assert " + t + ")"})
}

func (e *Emitter) oblige(o *Obligation) {
	if e.discard {
		return
	}
	o.Tag = e.curTag
	// obligation names identify replay files, solver files and known findings:
	// they must be unique within a function (several back edges, several
	// return paths and repeated calls otherwise share a name)
	if e.names == nil {
		e.names = map[string]int{}
	}
	e.names[o.Name]++
	if n := e.names[o.Name]; n > 1 {
		o.Name = fmt.Sprintf("%s~%d", o.Name, n)
	}
	e.items = append(e.items, item{obl: o})
}

const prelude = `(set-option :produce-models true)
(set-logic ALL)
(declare-sort Str 0)
(declare-fun slen (Str) (_ BitVec 64))
(declare-fun sarr (Str) (Array (_ BitVec 64) (_ BitVec 8)))
(define-fun streq ((a Str) (b Str)) Bool (= a b))
(assert (forall ((s Str)) (! (bvule (slen s) #x0000010000000000) :pattern ((slen s)))))
(declare-fun at ((_ BitVec 64) (_ BitVec 64)) (_ BitVec 64))
(assert (forall ((o (_ BitVec 64)) (i (_ BitVec 64))) (! (= (at o i) (bvadd o i)) :pattern ((at o i)))))
`

// script renders the incremental script: every obligation is checked under
// the assumptions and the previously checked obligations before it.
func (e *Emitter) script(timeoutMs int) (string, []*Obligation) {
	var b strings.Builder
	b.WriteString(prelude)
	if timeoutMs > 0 {
		fmt.Fprintf(&b, "(set-option :timeout %d)\n", timeoutMs)
	}
	var obls []*Obligation
	for _, it := range e.items {
		if it.obl == nil {
			b.WriteString(it.line)
			b.WriteByte('\n')
			continue
		}
		o := it.obl
		obls = append(obls, o)
		fmt.Fprintf(&b, "; OBL %s\n(push 1)\n", o.Name)
		if o.Cover {
			fmt.Fprintf(&b, "(set-option :timeout 2000)\n(assert %s)\n", and(o.Guard, o.Prop))
		} else {
			fmt.Fprintf(&b, "(assert (not %s))\n", implies(o.Guard, o.goal()))
		}
		b.WriteString("(check-sat)\n(pop 1)\n")
		if o.Cover && timeoutMs > 0 {
			fmt.Fprintf(&b, "(set-option :timeout %d)\n", timeoutMs)
		}
		if !o.Cover {
			fmt.Fprintf(&b, "(assert %s)\n", implies(o.Guard, o.Prop))
		}
	}
	return b.String(), obls
}

// standalone renders a one-shot script for obligation target (prefix +
// negated goal), optionally restricted to / excluding its region.
func (e *Emitter) standalone(target *Obligation, mode string, withModel bool) string {
	return e.standaloneAlt(target, mode, withModel, false)
}

func (e *Emitter) standaloneAlt(target *Obligation, mode string, withModel bool, useAlt bool) string {
	var b strings.Builder
	b.WriteString(prelude)
	// slicing: an assertion made while executing a block from which the
	// obligation's block cannot be reached says nothing about the paths that
	// lead to the obligation (it is guarded by that block's reach condition or
	// defines names only that block's successors use), so it is left out
	var relevant map[int]bool
	if e.anc != nil && target.Tag >= 0 {
		relevant = e.anc[target.Tag]
	}
	marks := e.tagAt
	mi, cur := 0, -1
	for i, it := range e.items {
		for mi < len(marks) && marks[mi].idx <= i {
			cur = marks[mi].tag
			mi++
		}
		keep := relevant == nil || cur < 0 || relevant[cur]
		if it.obl == nil {
			if keep || it.glob || strings.HasPrefix(it.line, "(declare") {
				b.WriteString(it.line)
				b.WriteByte('\n')
			}
			continue
		}
		o := it.obl
		if o == target {
			break
		}
		if !o.Cover && keep {
			fmt.Fprintf(&b, "(assert %s)\n", implies(o.Guard, o.Prop))
		}
	}
	// declarations that come later in the item list but are referenced by the
	// target cannot exist: terms only mention earlier names.
	g := target.Guard
	switch mode {
	case "outside":
		g = and(g, not(target.Region))
	case "inside":
		g = and(g, target.Region)
	}
	prop := target.goal()
	_ = useAlt
	if target.Cover {
		fmt.Fprintf(&b, "(assert %s)\n", and(g, prop))
	} else {
		fmt.Fprintf(&b, "(assert (not %s))\n", implies(g, prop))
	}
	b.WriteString("(check-sat)\n")
	if withModel && len(target.Inputs) > 0 {
		b.WriteString("(get-value (")
		for _, in := range target.Inputs {
			b.WriteString(in.Term)
			b.WriteByte(' ')
		}
		b.WriteString("))\n")
	}
	return b.String()
}
