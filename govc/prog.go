package main

import (
	"fmt"
	"go/token"
	"go/types"
	"os"
	"path/filepath"
	"sort"
	"strings"

	"golang.org/x/tools/go/packages"
	"golang.org/x/tools/go/ssa"
	"golang.org/x/tools/go/ssa/ssautil"
)

type Prog struct {
	ssaProg      *ssa.Program
	pkgs         []*packages.Package
	fset         *token.FileSet
	specs        *Specs
	fnByKey      map[string]*ssa.Function
	pkgByName    map[string]*types.Package
	typeTags     map[string]int
	epoch        int
	pendingWhole map[string]bool
	repo         string
	hookFiles    []string
	known        *KnownFile
}

const modPath = "github.com/mit-pdos/go-nfsd"

func loadProg(repo string, specDirs []string) (*Prog, error) {
	cfg := &packages.Config{Mode: packages.LoadAllSyntax, Dir: repo, BuildFlags: []string{"-tags=verif"},
		Env: append(os.Environ(), "GOFLAGS=-mod=mod", "GOPROXY=off", "GOSUMDB=off", "GOTOOLCHAIN=local")}
	pkgs, err := packages.Load(cfg, "./...")
	if err != nil {
		return nil, err
	}
	nerr := 0
	packages.Visit(pkgs, nil, func(p *packages.Package) {
		if strings.HasPrefix(p.PkgPath, modPath) {
			for _, e := range p.Errors {
				fmt.Fprintf(os.Stderr, "load error: %v\n", e)
				nerr++
			}
		}
	})
	if nerr > 0 {
		return nil, fmt.Errorf("%d package errors: /repo does not compile", nerr)
	}
	prog, _ := ssautil.AllPackages(pkgs, ssa.GlobalDebug|ssa.InstantiateGenerics)
	prog.Build()
	P := &Prog{ssaProg: prog, pkgs: pkgs, fset: prog.Fset, specs: newSpecs(), fnByKey: map[string]*ssa.Function{},
		pkgByName: map[string]*types.Package{}, typeTags: map[string]int{}, pendingWhole: map[string]bool{}, repo: repo}
	// package names: module packages win over dependencies on collision
	var all []*packages.Package
	packages.Visit(pkgs, nil, func(p *packages.Package) { all = append(all, p) })
	sort.Slice(all, func(i, j int) bool { return all[i].PkgPath < all[j].PkgPath })
	for _, p := range all {
		if p.Types == nil {
			continue
		}
		prev, dup := P.pkgByName[p.Name]
		if !dup {
			P.pkgByName[p.Name] = p.Types
			continue
		}
		// prefer: go-nfsd, then go-journal, then goose-lang/primitive
		if rank(p.PkgPath) < rank(prev.Path()) {
			P.pkgByName[p.Name] = p.Types
		}
	}
	for fn := range ssautil.AllFunctions(prog) {
		if fn.Pkg == nil && fn.Parent() == nil {
			continue
		}
		k := P.funcKey(fn)
		if old, ok := P.fnByKey[k]; ok && old != fn {
			// keep the one from the preferred package
			if rank(pkgPathOf(old)) <= rank(pkgPathOf(fn)) {
				continue
			}
		}
		P.fnByKey[k] = fn
	}
	// contracts: hook files in the repo, then dependency contracts
	hooks, _ := filepath.Glob(filepath.Join(repo, "*", "zz_contracts_verif.go"))
	hooks2, _ := filepath.Glob(filepath.Join(repo, "*", "*", "zz_contracts_verif.go"))
	hooks = append(hooks, hooks2...)
	sort.Strings(hooks)
	P.hookFiles = hooks
	for _, h := range hooks {
		if err := P.specs.loadSpecFile(h); err != nil {
			return nil, err
		}
	}
	for _, d := range specDirs {
		if err := P.specs.loadDir(d, "*.spec"); err != nil {
			return nil, err
		}
	}
	registerGhostFields(P)
	if err := P.resolveHooks(); err != nil {
		return nil, err
	}
	return P, nil
}

func pkgPathOf(fn *ssa.Function) string {
	for f := fn; f != nil; f = f.Parent() {
		if f.Pkg != nil {
			return f.Pkg.Pkg.Path()
		}
	}
	if fn.Object() != nil && fn.Object().Pkg() != nil {
		return fn.Object().Pkg().Path()
	}
	return ""
}

func rank(path string) int {
	switch {
	case strings.HasPrefix(path, modPath):
		return 0
	case strings.HasPrefix(path, "github.com/mit-pdos/go-journal"):
		return 1
	case strings.HasPrefix(path, "github.com/goose-lang/primitive"):
		return 2
	case strings.HasPrefix(path, "github.com/tchajed"):
		return 3
	case strings.Contains(path, "."):
		return 5
	}
	return 4 // standard library
}

func (P *Prog) funcKey(fn *ssa.Function) string {
	if fn.Parent() != nil {
		return P.funcKey(fn.Parent()) + strings.TrimPrefix(fn.Name(), fn.Parent().Name())
	}
	pkg := ""
	if fn.Pkg != nil {
		pkg = fn.Pkg.Pkg.Name()
	} else if fn.Object() != nil && fn.Object().Pkg() != nil {
		pkg = fn.Object().Pkg().Name()
	}
	if recv := fn.Signature.Recv(); recv != nil {
		rt := recv.Type()
		star := ""
		if pt, ok := rt.(*types.Pointer); ok {
			star = "*"
			rt = pt.Elem()
		}
		name := typeKey(rt)
		if i := strings.LastIndex(name, "."); i >= 0 {
			name = name[i+1:]
		}
		return fmt.Sprintf("%s.(%s%s).%s", pkg, star, name, fn.Name())
	}
	return pkg + "." + fn.Name()
}

func (P *Prog) ifaceKey(t types.Type, method string) string {
	name := typeKey(t)
	pkg := ""
	if i := strings.LastIndex(name, "."); i >= 0 {
		pkg = name[:i]
		name = name[i+1:]
	}
	if pkg == "" {
		return fmt.Sprintf("(%s).%s", name, method)
	}
	return fmt.Sprintf("%s.(%s).%s", pkg, name, method)
}

func (P *Prog) inlinablePkg(fn *ssa.Function) bool {
	p := pkgPathOf(fn)
	return strings.HasPrefix(p, modPath) ||
		strings.HasPrefix(p, "github.com/mit-pdos/go-journal/util") ||
		strings.HasPrefix(p, "github.com/mit-pdos/go-journal/addr") ||
		strings.HasPrefix(p, "github.com/mit-pdos/go-journal/common") ||
		strings.HasPrefix(p, "github.com/mit-pdos/go-journal/buf") ||
		strings.HasPrefix(p, "github.com/tchajed/marshal") ||
		strings.HasPrefix(p, "github.com/goose-lang/std")
}

func (P *Prog) specPkg(spec *FuncSpec) *types.Package {
	k := spec.Key
	if i := strings.Index(k, "."); i > 0 {
		if p := P.pkgByName[k[:i]]; p != nil {
			return p
		}
	}
	return nil
}

var basicByName = map[string]types.Type{
	"uint64": types.Typ[types.Uint64], "uint32": types.Typ[types.Uint32], "uint16": types.Typ[types.Uint16],
	"uint8": types.Typ[types.Uint8], "byte": types.Typ[types.Uint8], "int": types.Typ[types.Int],
	"int64": types.Typ[types.Int64], "int32": types.Typ[types.Int32], "bool": types.Typ[types.Bool],
	"string": types.Typ[types.String], "uint": types.Typ[types.Uint], "ref": types.Typ[types.UnsafePointer],
}

func (P *Prog) tryResolveType(pkg *types.Package, e *Expr) (types.Type, bool) {
	switch e.Kind {
	case "paren":
		return P.tryResolveType(pkg, e.X)
	case "ident":
		if t, ok := basicByName[e.Name]; ok {
			return t, true
		}
		if pkg != nil {
			if tn, ok := pkg.Scope().Lookup(e.Name).(*types.TypeName); ok {
				return tn.Type(), true
			}
		}
	case "sel":
		if e.X.Kind == "ident" {
			if p := P.pkgByName[e.X.Name]; p != nil {
				if tn, ok := p.Scope().Lookup(e.Name).(*types.TypeName); ok {
					return tn.Type(), true
				}
			}
		}
	case "star":
		if t, ok := P.tryResolveType(pkg, e.X); ok {
			return types.NewPointer(t), true
		}
	case "slicetype":
		if t, ok := P.tryResolveType(pkg, e.X); ok {
			return types.NewSlice(t), true
		}
	}
	return nil, false
}

func (P *Prog) resolveType(pkg *types.Package, e *Expr) types.Type {
	t, ok := P.tryResolveType(pkg, e)
	if !ok {
		panic(execError{fmt.Sprintf("unknown type %s in contract", e)})
	}
	return t
}

func (P *Prog) ghostType(e *Expr) *GhostType {
	if e.Kind == "maptype" {
		return &GhostType{Key: P.ghostType(e.X), Val: P.ghostType(e.Y)}
	}
	return &GhostType{Base: P.resolveType(nil, e)}
}

var ghostFieldTypes = map[string]types.Type{}

func registerGhostFields(P *Prog) {
	for k, g := range P.specs.Ghosts {
		if g.Field && g.Type.Kind != "maptype" {
			ghostFieldTypes[k] = P.resolveType(nil, g.Type)
		}
	}
}

func (P *Prog) resolveHooks() error {
	all := append(append([]*Hook{}, P.specs.Hooks...), P.specs.OwnedDecl...)
	defer func() {
		for _, h := range P.specs.OwnedDecl {
			P.specs.Owned[h.Key] = true
		}
	}()
	for _, h := range all {
		var parts []string
		cur := h.Target
		for cur.Kind == "sel" {
			parts = append([]string{cur.Name}, parts...)
			cur = cur.X
		}
		if cur.Kind != "ident" || len(parts) < 2 {
			return fmt.Errorf("%s:%d: hook target must be pkg.Type.field", h.File, h.Line)
		}
		pkg := P.pkgByName[cur.Name]
		if pkg == nil {
			return fmt.Errorf("%s:%d: unknown package %s", h.File, h.Line, cur.Name)
		}
		tn, ok := pkg.Scope().Lookup(parts[0]).(*types.TypeName)
		if !ok {
			return fmt.Errorf("%s:%d: unknown type %s.%s", h.File, h.Line, cur.Name, parts[0])
		}
		var path []Step
		for _, f := range parts[1:] {
			path = append(path, Step{Field: f})
		}
		_, key, _, err := typeAtPath(tn.Type(), path)
		if err != nil {
			return fmt.Errorf("%s:%d: %v", h.File, h.Line, err)
		}
		h.Key = key
		h.rootKey = rootKey(tn.Type())
	}
	return nil
}
