package main

// Counterexample replay on the real code (DESIGN.md A2.4).
//
// Scope: a failed `ensures` (or a language-safety obligation) of a function
// whose parameters and receiver are values built from integers, booleans,
// strings, byte slices and structs of those. For such a function the solver
// model determines the inputs completely (up to the first 24 bytes of every
// slice/string; the rest is zero-filled), so an in-package test can call the
// real function and evaluate the clause, compiled to Go, on its result. The
// test is injected with `go test -overlay` (nothing is written into the
// repository). Everything else (functions that need a heap state satisfying
// ghost preconditions) is not replayable: tryReplay says so and the VIOLATION
// line keeps its `no-failing-input-found` suffix.

import (
	"encoding/json"
	"fmt"
	"go/types"
	"math/big"
	"os"
	"os/exec"
	"path/filepath"
	"regexp"
	"strconv"
	"strings"
	"time"

	"golang.org/x/tools/go/ssa"
)

const replayElems = 24

func init() { tryReplay = replayObligation }

// addElemInputs: the first bytes of every byte-slice/string reachable from a
// value parameter become named model terms ("p[3]", "p.Data[0]").
func (x *Exec) addElemInputs(fr *Frame, st *State, fn *ssa.Function) {
	env := x.newEnv(fr, st, nil)
	add := func(path string) {
		defer func() { recover() }()
		for i := 0; i < replayElems; i++ {
			e, err := parseExpr(fmt.Sprintf("%s[%d]", path, i))
			if err != nil {
				return
			}
			x.pure++
			t := x.term(x.evalExpr(env, e))
			x.pure--
			x.inputs = append(x.inputs, NamedTerm{fmt.Sprintf("%s[%d]", path, i), t})
		}
	}
	var walk func(path string, t types.Type, depth int)
	walk = func(path string, t types.Type, depth int) {
		switch u := t.Underlying().(type) {
		case *types.Slice:
			if b, ok := u.Elem().Underlying().(*types.Basic); ok && b.Kind() == types.Uint8 {
				add(path)
			}
		case *types.Basic:
			if u.Kind() == types.String {
				func() {
					defer func() { recover() }()
					e, _ := parseExpr("len(" + path + ")")
					x.pure++
					t := x.term(x.evalExpr(env, e))
					x.pure--
					x.inputs = append(x.inputs, NamedTerm{"len(" + path + ")", t})
				}()
				add(path)
			}
		case *types.Struct:
			if depth < 2 {
				for i := 0; i < u.NumFields(); i++ {
					walk(path+"."+u.Field(i).Name(), u.Field(i).Type(), depth+1)
				}
			}
		}
	}
	for _, p := range fn.Params {
		if len(x.inputs) > 400 {
			return
		}
		walk(p.Name(), p.Type(), 0)
	}
}

// ---- model parsing ----

var pairRe = regexp.MustCompile(`\(\s*((?:\([^()]*(?:\([^()]*(?:\([^()]*\)[^()]*)*\)[^()]*)*\))|[^\s()]+)\s+(#x[0-9a-fA-F]+|#b[01]+|true|false|\(_ bv\d+ \d+\)|[^\s()]+)\s*\)`)

func parseModel(o *Obligation) map[string]string {
	m := map[string]string{}
	txt := strings.TrimSpace(o.Model)
	// the answer to (get-value (t1 t2 ...)) lists (term value) pairs in order
	vals := [][]string{}
	depth, start := 0, -1
	for i, c := range txt {
		switch c {
		case '(':
			depth++
			if depth == 2 {
				start = i
			}
		case ')':
			if depth == 2 && start >= 0 {
				vals = append(vals, []string{txt[start : i+1]})
				start = -1
			}
			depth--
		}
	}
	for i, in := range o.Inputs {
		if i >= len(vals) {
			break
		}
		p := vals[i][0]
		// value = last token or last parenthesised group before the closing paren
		p = strings.TrimSuffix(strings.TrimSpace(p), ")")
		p = strings.TrimSpace(p)
		var v string
		if strings.HasSuffix(p, ")") { // (_ bvN w)
			j := strings.LastIndex(p, "(")
			v = p[j:]
		} else {
			j := strings.LastIndexAny(p, " \n\t")
			v = p[j+1:]
		}
		m[in.Name] = v
	}
	return m
}

func smtNum(v string) (*big.Int, bool) {
	switch {
	case strings.HasPrefix(v, "#x"):
		n, ok := new(big.Int).SetString(v[2:], 16)
		return n, ok
	case strings.HasPrefix(v, "#b"):
		n, ok := new(big.Int).SetString(v[2:], 2)
		return n, ok
	case strings.HasPrefix(v, "(_ bv"):
		f := strings.Fields(strings.Trim(v, "()"))
		if len(f) >= 2 {
			n, ok := new(big.Int).SetString(strings.TrimPrefix(f[1], "bv"), 10)
			return n, ok
		}
	}
	return nil, false
}

// ---- Go literals for the inputs ----

type replayGen struct {
	P     *Prog
	model map[string]string
	why   string
	pkg   *types.Package
	imps  map[string]string
}

func (g *replayGen) typeName(t types.Type) string {
	return types.TypeString(t, func(p *types.Package) string {
		if p == g.pkg {
			return ""
		}
		if g.imps == nil {
			g.imps = map[string]string{}
		}
		g.imps[p.Path()] = p.Name()
		return p.Name()
	})
}

func (g *replayGen) lit(path string, t types.Type, depth int) (string, bool) {
	switch u := t.Underlying().(type) {
	case *types.Basic:
		switch {
		case u.Info()&types.IsBoolean != 0:
			v, ok := g.model[path]
			if !ok {
				return "false", true
			}
			return g.typeName(t) + "(" + v + ")", true
		case u.Info()&types.IsInteger != 0:
			n, ok := smtNum(g.model[path])
			if !ok {
				n = big.NewInt(0)
			}
			if u.Info()&types.IsUnsigned == 0 {
				// two's complement
				bits := 64
				switch u.Kind() {
				case types.Int32:
					bits = 32
				case types.Int16:
					bits = 16
				case types.Int8:
					bits = 8
				}
				if n.Bit(bits-1) == 1 {
					n = new(big.Int).Sub(n, new(big.Int).Lsh(big.NewInt(1), uint(bits)))
				}
			}
			return g.typeName(t) + "(" + n.String() + ")", true
		case u.Kind() == types.String:
			b, ok := g.bytes(path)
			if !ok {
				return "", false
			}
			return g.typeName(t) + "(" + strconv.Quote(string(b)) + ")", true
		}
	case *types.Slice:
		if b, ok := u.Elem().Underlying().(*types.Basic); ok && b.Kind() == types.Uint8 {
			bs, ok := g.bytes(path)
			if !ok {
				return "", false
			}
			if bs == nil {
				return g.typeName(t) + "(nil)", true
			}
			var sb strings.Builder
			sb.WriteString("append(make([]byte, 0, " + strconv.Itoa(len(bs)) + "), []byte{")
			for i, c := range bs {
				if i >= replayElems {
					break
				}
				fmt.Fprintf(&sb, "%d,", c)
			}
			sb.WriteString("}...)")
			s := sb.String()
			if len(bs) > replayElems {
				s = "append(" + s + ", make([]byte, " + strconv.Itoa(len(bs)-replayElems) + ")...)"
			}
			return g.typeName(t) + "(" + s + ")", true
		}
	case *types.Struct:
		if depth > 2 {
			break
		}
		var fs []string
		for i := 0; i < u.NumFields(); i++ {
			l, ok := g.lit(path+"."+u.Field(i).Name(), u.Field(i).Type(), depth+1)
			if !ok {
				return "", false
			}
			fs = append(fs, u.Field(i).Name()+": "+l)
		}
		return g.typeName(t) + "{" + strings.Join(fs, ", ") + "}", true
	}
	g.why = "parameter " + path + " of type " + t.String() + " cannot be built from a model"
	return "", false
}

func (g *replayGen) bytes(path string) ([]byte, bool) {
	n, ok := smtNum(g.model["len("+path+")"])
	if !ok {
		g.why = "no length for " + path + " in the model"
		return nil, false
	}
	if !n.IsUint64() || n.Uint64() > 1<<16 {
		g.why = fmt.Sprintf("the model needs len(%s) = %s: not executed", path, n.String())
		return nil, false
	}
	l := int(n.Uint64())
	if l == 0 {
		return nil, true
	}
	b := make([]byte, l)
	for i := 0; i < l && i < replayElems; i++ {
		if v, ok := smtNum(g.model[fmt.Sprintf("%s[%d]", path, i)]); ok {
			b[i] = byte(v.Uint64())
		}
	}
	return b, true
}

// ---- contract expression -> Go ----

type goTr struct {
	P    *Prog
	subs map[string]string
	err  string
	n    int
}

func (t *goTr) fail(f string, a ...interface{}) string {
	if t.err == "" {
		t.err = fmt.Sprintf(f, a...)
	}
	return "false"
}

func (t *goTr) tr(e *Expr) string {
	if e == nil {
		return t.fail("empty expression")
	}
	switch e.Kind {
	case "lit":
		return e.Name
	case "str":
		return strconv.Quote(e.Name)
	case "paren":
		return "(" + t.tr(e.X) + ")"
	case "ident":
		if s, ok := t.subs[e.Name]; ok {
			return s
		}
		return e.Name
	case "sel":
		return t.tr(e.X) + "." + e.Name
	case "index":
		return t.tr(e.X) + "[" + t.tr(e.Y) + "]"
	case "unary":
		return "(" + e.Op + t.tr(e.X) + ")"
	case "binary":
		a, b := t.tr(e.X), t.tr(e.Y)
		switch e.Op {
		case "==>":
			return "(!(" + a + ") || (" + b + "))"
		case "<==>":
			return "((" + a + ") == (" + b + "))"
		}
		return "(" + a + " " + e.Op + " " + b + ")"
	case "call":
		name := ""
		if e.X != nil && e.X.Kind == "ident" {
			name = e.X.Name
		}
		var args []string
		for _, a := range e.Args {
			args = append(args, t.tr(a))
		}
		switch name {
		case "len":
			return "uint64(len(" + strings.Join(args, ",") + "))"
		case "cap":
			return "uint64(cap(" + strings.Join(args, ",") + "))"
		case "ite":
			if len(args) == 3 {
				return "zzite(" + strings.Join(args, ", ") + ")"
			}
		case "old", "fresh", "allocated", "store", "indom", "base", "off", "elems":
			return t.fail("%s(...) is not executable", name)
		case "uint64", "uint32", "uint16", "uint8", "int", "int64", "int32", "bool", "string", "byte":
			return name + "(" + strings.Join(args, ",") + ")"
		}
		if sf := t.P.specs.SpecFuncs[name]; sf != nil && !sf.Opaque || sf != nil {
			if len(sf.Params) != len(e.Args) {
				return t.fail("arity of %s", name)
			}
			saved := t.subs
			ns := map[string]string{}
			for k, v := range saved {
				ns[k] = v
			}
			for i, p := range sf.Params {
				ns[p.Name] = "(" + args[i] + ")"
			}
			t.subs = ns
			r := "(" + t.tr(sf.Body) + ")"
			t.subs = saved
			return r
		}
		return t.fail("call of %s is not executable", e.Src)
	case "quant":
		if len(e.Vars) != 1 {
			return t.fail("quantifier over several variables")
		}
		v := e.Vars[0]
		vt := "uint64"
		if v.Type != nil && v.Type.Kind == "ident" {
			vt = v.Type.Name
		}
		body := e.X
		for body != nil && body.Kind == "paren" {
			body = body.X
		}
		bound := func(c *Expr) (string, bool) {
			for c != nil && c.Kind == "paren" {
				c = c.X
			}
			if c != nil && c.Kind == "binary" && c.Op == "<" && c.X.Kind == "ident" && c.X.Name == v.Name {
				return t.tr(c.Y), true
			}
			return "", false
		}
		t.n++
		if e.Op == "forall" && body.Kind == "binary" && body.Op == "==>" {
			l := body.X
			for l.Kind == "paren" {
				l = l.X
			}
			first := l
			for first.Kind == "binary" && first.Op == "&&" {
				first = first.X
			}
			if b, ok := bound(first); ok {
				return fmt.Sprintf("func() bool { for %s := %s(0); %s < %s(%s); %s++ { if !(%s) { return false } }; return true }()", v.Name, vt, v.Name, vt, b, v.Name, t.tr(body))
			}
		}
		if e.Op == "exists" && body.Kind == "binary" && body.Op == "&&" {
			first := body
			for first.Kind == "binary" && first.Op == "&&" {
				first = first.X
			}
			if b, ok := bound(first); ok {
				return fmt.Sprintf("func() bool { for %s := %s(0); %s < %s(%s); %s++ { if %s { return true } }; return false }()", v.Name, vt, v.Name, vt, b, v.Name, t.tr(body))
			}
		}
		return t.fail("quantifier without an executable bound: %s", e.Src)
	}
	return t.fail("expression kind %s is not executable", e.Kind)
}

// ---- the replay itself ----

func replayObligation(P *Prog, r *FuncResult, o *Obligation) (string, bool) {
	if o.Model == "" || o.Status != "failed" {
		return "", false
	}
	fn := P.fnByKey[r.Key]
	if fn == nil || fn.Pkg == nil || len(fn.FreeVars) > 0 {
		return "", false
	}
	spec := P.specs.Funcs[r.Key]
	g := &replayGen{P: P, model: parseModel(o), pkg: fn.Pkg.Pkg}
	// inputs
	var decls []string
	var args []string
	recv := ""
	for i, p := range fn.Params {
		l, ok := g.lit(p.Name(), p.Type(), 0)
		if !ok {
			return "not replayable: " + g.why, false
		}
		name := p.Name()
		if name == "" || name == "_" {
			name = fmt.Sprintf("zzp%d", i)
		}
		decls = append(decls, fmt.Sprintf("\t%s := %s\n\t_ = %s", name, l, name))
		if i == 0 && fn.Signature.Recv() != nil {
			recv = name
		} else {
			args = append(args, name)
		}
	}
	call := fn.Name() + "(" + strings.Join(args, ", ") + ")"
	if recv != "" {
		call = recv + "." + call
	}
	res := fn.Signature.Results()
	var lhs []string
	subs := map[string]string{}
	for i := 0; i < res.Len(); i++ {
		lhs = append(lhs, fmt.Sprintf("zzr%d", i))
		subs[fmt.Sprintf("result%d", i)] = fmt.Sprintf("zzr%d", i)
		if n := res.At(i).Name(); n != "" && n != "_" {
			subs[n] = fmt.Sprintf("zzr%d", i)
		}
	}
	if res.Len() == 1 {
		subs["result"] = "zzr0"
	}
	// the clause
	clause := ""
	isSafety := o.Kind != "ensures"
	if !isSafety {
		if spec == nil {
			return "", false
		}
		lab := strings.TrimPrefix(o.Name, r.Key+"/ensures:")
		if i := strings.IndexAny(lab, "#~"); i >= 0 {
			lab = lab[:i]
		}
		for _, c := range spec.Ensures {
			if c.Label == lab {
				tr := &goTr{P: P, subs: subs}
				clause = tr.tr(c.Expr)
				if tr.err != "" {
					return "not replayable: " + tr.err, false
				}
			}
		}
		if clause == "" {
			return "", false
		}
	} else if o.Kind != "nopanic" && o.Kind != "bounds" && o.Kind != "nil" && o.Kind != "safety" && o.Kind != "call-pre" {
		return "", false
	}
	var b strings.Builder
	fmt.Fprintf(&b, "package %s\n\nimport (\n\t\"fmt\"\n\t\"testing\"\n", fn.Pkg.Pkg.Name())
	for path, name := range g.imps {
		fmt.Fprintf(&b, "\t%s %q\n", name, path)
	}
	b.WriteString(")\n\n")
	b.WriteString("func zzite[T any](c bool, a, b T) T {\n\tif c {\n\t\treturn a\n\t}\n\treturn b\n}\n\nvar _ = zzite[int]\n\n")
	b.WriteString("func TestZZReplay(t *testing.T) {\n\tdefer func() {\n\t\tif r := recover(); r != nil {\n\t\t\tfmt.Println(\"REPLAY-PANIC:\", r)\n\t\t}\n\t}()\n")
	b.WriteString(strings.Join(decls, "\n") + "\n")
	if len(lhs) > 0 {
		fmt.Fprintf(&b, "\t%s := %s\n", strings.Join(lhs, ", "), call)
		for _, l := range lhs {
			fmt.Fprintf(&b, "\t_ = %s\n", l)
		}
	} else {
		fmt.Fprintf(&b, "\t%s\n", call)
	}
	if clause != "" {
		fmt.Fprintf(&b, "\tfmt.Println(\"REPLAY-CLAUSE:\", %s)\n", clause)
	} else {
		b.WriteString("\tfmt.Println(\"REPLAY-RETURNED\")\n")
	}
	b.WriteString("}\n")
	tmp, err := os.MkdirTemp("", "govc-replay")
	if err != nil {
		return "", false
	}
	defer os.RemoveAll(tmp)
	testFile := filepath.Join(tmp, "zz_replay_test.go")
	os.WriteFile(testFile, []byte(b.String()), 0o644)
	// the package directory of the function
	pos := P.fset.Position(fn.Pos())
	dir := filepath.Dir(pos.Filename)
	if !strings.HasPrefix(dir, P.repo) {
		return "not replayable: " + r.Key + " is not in the repository", false
	}
	ov, _ := json.Marshal(map[string]interface{}{"Replace": map[string]string{filepath.Join(dir, "zz_replay_test.go"): testFile}})
	ovFile := filepath.Join(tmp, "ov.json")
	os.WriteFile(ovFile, ov, 0o644)
	cmd := exec.Command("go", "test", "-overlay", ovFile, "-vet=off", "-count=1", "-timeout", "60s", "-run", "^TestZZReplay$", "-v", ".")
	cmd.Dir = dir
	cmd.Env = append(os.Environ(), "GOFLAGS=-mod=mod", "GOPROXY=off", "GOSUMDB=off", "GOTOOLCHAIN=local")
	done := make(chan struct{})
	var out []byte
	go func() { out, _ = cmd.CombinedOutput(); close(done) }()
	select {
	case <-done:
	case <-time.After(120 * time.Second):
		if cmd.Process != nil {
			cmd.Process.Kill()
		}
		return "replay timed out", false
	}
	txt := string(out)
	rep := "test injected with go test -overlay (not written into the repository):\n" + b.String() + "\noutput:\n" + txt
	switch {
	case strings.Contains(txt, "REPLAY-CLAUSE: false"):
		return rep + "\nthe real function returns a result that violates the clause: CONFIRMED", true
	case strings.Contains(txt, "REPLAY-PANIC:") && isSafety:
		return rep + "\nthe real function panics on this input: CONFIRMED", true
	case strings.Contains(txt, "REPLAY-PANIC:"):
		return rep + "\nthe real function panics on this input (the clause could not be evaluated): CONFIRMED as a failure to return", true
	}
	return rep + "\nnot reproduced with the bytes the model fixes (the rest of each slice was zero-filled)", false
}

// ---- C16: differential replay of the generated XDR code against the RFC grammar ----

var xdrReplayCache = map[string][2]string{}

// replayXDR runs, on the real code, the differential test that tools/xdrgen.py
// generates from the RFC 1813 grammar for the function an obligation belongs
// to (a codec method, a handler wrapper or a registration table): witness
// values for every union arm and optional member are encoded and decoded by
// the real code and compared with an independent reference encoder. A
// mismatch is a concrete failing input.
func replayXDR(P *Prog, r *FuncResult) (string, bool) {
	key := r.Key
	test := ""
	switch {
	case strings.HasPrefix(key, "nfstypes.(*") && strings.HasSuffix(key, ").Xdr"):
		test = "TestZZReplayType_" + strings.TrimSuffix(strings.TrimPrefix(key, "nfstypes.(*"), ").Xdr")
	case strings.HasPrefix(key, "nfstypes.(*") && strings.Contains(key, "_handler_wrapper)."):
		test = "TestZZReplayWrapper_" + key[strings.LastIndex(key, ".")+1:]
	case strings.HasPrefix(key, "nfstypes.") && strings.HasSuffix(key, "_regs"):
		test = "TestZZReplayRegs_" + strings.TrimSuffix(strings.TrimPrefix(key, "nfstypes."), "_regs")
	default:
		return "", false
	}
	if c, ok := xdrReplayCache[test]; ok {
		return c[0], c[1] == "1"
	}
	save := func(txt string, ok bool) (string, bool) {
		f := "0"
		if ok {
			f = "1"
		}
		xdrReplayCache[test] = [2]string{txt, f}
		return txt, ok
	}
	tmp, err := os.MkdirTemp("", "govc-xdrreplay")
	if err != nil {
		return save("", false)
	}
	defer os.RemoveAll(tmp)
	testFile := filepath.Join(tmp, "zz_replay_test.go")
	if out, err := exec.Command("python3", filepath.Join(verifDir, "tools", "xdrgen.py"), "--replay-test", testFile).CombinedOutput(); err != nil {
		return save("replay harness could not be generated: "+string(out), false)
	}
	dir := filepath.Join(P.repo, "nfstypes")
	ov, _ := json.Marshal(map[string]interface{}{"Replace": map[string]string{filepath.Join(dir, "zz_replay_test.go"): testFile}})
	ovFile := filepath.Join(tmp, "ov.json")
	os.WriteFile(ovFile, ov, 0o644)
	cmd := exec.Command("go", "test", "-overlay", ovFile, "-vet=off", "-count=1", "-timeout", "60s", "-run", "^"+test+"$", "-v", ".")
	cmd.Dir = dir
	cmd.Env = append(os.Environ(), "GOFLAGS=-mod=mod", "GOPROXY=off", "GOSUMDB=off", "GOTOOLCHAIN=local")
	done := make(chan struct{})
	var out []byte
	go func() { out, _ = cmd.CombinedOutput(); close(done) }()
	select {
	case <-done:
	case <-time.After(120 * time.Second):
		if cmd.Process != nil {
			cmd.Process.Kill()
		}
		return save("replay timed out", false)
	}
	txt := string(out)
	head := "differential test " + test + " generated from the RFC 1813 grammar by tools/xdrgen.py --replay-test, injected with go test -overlay (nothing is written into the repository); output:\n"
	switch {
	case strings.Contains(txt, "REPLAY-MISMATCH"):
		return save(head+txt+"\nthe real code disagrees with the RFC layout on this input: CONFIRMED", true)
	case strings.Contains(txt, "panic:"):
		return save(head+txt+"\nthe real code panics on a witness value: CONFIRMED", true)
	}
	return save(head+txt+"\nnot reproduced with the witness values tried", false)
}

// replayXDRAll runs every generated differential test (thorough tier of C16).
func replayXDRAll(P *Prog) (string, bool) {
	tmp, err := os.MkdirTemp("", "govc-xdrreplay")
	if err != nil {
		return "", false
	}
	defer os.RemoveAll(tmp)
	testFile := filepath.Join(tmp, "zz_replay_test.go")
	if out, err := exec.Command("python3", filepath.Join(verifDir, "tools", "xdrgen.py"), "--replay-test", testFile).CombinedOutput(); err != nil {
		return "replay harness could not be generated: " + string(out), true
	}
	dir := filepath.Join(P.repo, "nfstypes")
	ov, _ := json.Marshal(map[string]interface{}{"Replace": map[string]string{filepath.Join(dir, "zz_replay_test.go"): testFile}})
	ovFile := filepath.Join(tmp, "ov.json")
	os.WriteFile(ovFile, ov, 0o644)
	cmd := exec.Command("go", "test", "-overlay", ovFile, "-vet=off", "-count=1", "-timeout", "300s", "-run", "^TestZZReplay", "-v", ".")
	cmd.Dir = dir
	cmd.Env = append(os.Environ(), "GOFLAGS=-mod=mod", "GOPROXY=off", "GOSUMDB=off", "GOTOOLCHAIN=local")
	out, _ := cmd.CombinedOutput()
	txt := string(out)
	var keep []string
	for _, ln := range strings.Split(txt, "\n") {
		if strings.Contains(ln, "REPLAY-MISMATCH") || strings.Contains(ln, "panic:") || strings.HasPrefix(ln, "FAIL") || strings.HasPrefix(ln, "  ") {
			keep = append(keep, ln)
		}
	}
	bad := strings.Contains(txt, "REPLAY-MISMATCH") || strings.Contains(txt, "panic:") || !strings.Contains(txt, "REPLAY-AGREES")
	return "differential suite (tools/xdrgen.py --replay-test) on the real code:\n" + strings.Join(keep, "\n"), bad
}
